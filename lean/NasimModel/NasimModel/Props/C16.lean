import NasimModel.Generated.Shipped
import NasimModel.Generated.GeneratorOk
import NasimModel.Model.Plan
import NasimModel.Proofs.Inv
import NasimModel.Proofs.ReachFlat
/-!
# C16 — generated and shipped scenarios are solvable

`C16_plan_sound`: a plan accepted by `solvedBy` *is* an action history from the initial state
that ends in a goal state with every draw succeeding — for every scenario.  The plans are found
by saturation (`findPlan`, untrusted search) and checked per scenario: by kernel evaluation for the
nine shipped scenarios (T1, `Generated/Shipped.lean`), by the driver for every generated scenario
of the GEN suite, where the same plan is replayed on the real environment and must end with the
terminal flag.

Partial: a proof that *every* scenario the generator can return admits a plan (`gen_cert`) is not
attempted; see DESIGN.md §8 C16.
-/
namespace NASim

theorem runPlan_reach (sc : Scenario) (plan : List Nat) : ReachFlat sc (runPlan sc plan) := by
  unfold runPlan
  have : ∀ (s : State), ReachFlat sc s →
      ReachFlat sc (plan.foldl (fun s i => (perform sc.net s ((flatActions sc).getD i noopAction) 0).1) s) := by
    induction plan with
    | nil => intro s hs; exact hs
    | cons i is ih => intro s hs; exact ih _ (ReachFlat.step i 0 hs)
  exact this _ ReachFlat.init

/-- C16: a plan accepted by `solvedBy` is an action sequence over the scenario's action space that
gains root on all sensitive hosts from the initial state, all stochastic actions succeeding -/
theorem C16_plan_sound (sc : Scenario) (plan : List Nat) (h : solvedBy sc plan = true) :
    ∃ s, ReachFlat sc s ∧ goal sc.net s = true ∧
      ∀ p ∈ sc.net.sens, 2 ≤ (s.get p.1).access := by
  refine ⟨runPlan sc plan, runPlan_reach sc plan, h, ?_⟩
  unfold solvedBy goal hasAccess at h
  simpa [List.all_eq_true] using h

theorem C16_plan_witness (sc : Scenario) (plan : List Nat) (h : solvedBy sc plan = true) :
    ∃ s, ReachFlat sc s ∧ goal sc.net s = true := by
  obtain ⟨s, h1, h2, _⟩ := C16_plan_sound sc plan h
  exact ⟨s, h1, h2⟩

/-- the plan found by saturation is sound whenever it is accepted -/
theorem C16_findPlan_sound (sc : Scenario) (h : solvedBy sc (findPlan sc) = true) :
    ∃ s, ReachFlat sc s ∧ goal sc.net s = true := by
  obtain ⟨s, h1, h2, _⟩ := C16_plan_sound sc (findPlan sc) h
  exact ⟨s, h1, h2⟩

/-- every sweep step is a real transition: saturation only ever applies actions of the action
space with draw 0 -/
theorem sweep_reach (sc : Scenario) :
    ∀ (acts : List (Action × Nat)) (s : State) (plan : List Nat),
    (∀ p ∈ acts, (flatActions sc).getD p.2 noopAction = p.1) → ReachFlat sc s →
    ReachFlat sc (sweep sc.net acts s plan).1 := by
  intro acts
  induction acts with
  | nil => intro s plan _ hs; exact hs
  | cons x xs ih =>
    intro s plan hx hs
    obtain ⟨a, i⟩ := x
    simp only [sweep]
    have ha : (flatActions sc).getD i noopAction = a := hx (a, i) (List.mem_cons_self ..)
    have hxs : ∀ p ∈ xs, (flatActions sc).getD p.2 noopAction = p.1 :=
      fun p hp => hx p (List.mem_cons_of_mem _ hp)
    split
    · apply ih _ _ hxs
      have := ReachFlat.step (sc := sc) i 0 hs
      rwa [ha] at this
    · exact ih _ _ hxs hs

/-- C16 (shipped): each of the nine shipped benchmark scenarios — regenerated from the repository's
YAML files on every run — has a goal-reaching action sequence; the plans are kernel-checked in
`Generated/Shipped.lean` -/
theorem C16_shipped_solvable :
    ∀ p ∈ [(Generated.sc_tiny, Generated.sc_tiny_plan), (Generated.sc_tiny_hard, Generated.sc_tiny_hard_plan),
           (Generated.sc_tiny_small, Generated.sc_tiny_small_plan), (Generated.sc_small, Generated.sc_small_plan),
           (Generated.sc_small_honeypot, Generated.sc_small_honeypot_plan),
           (Generated.sc_small_linear, Generated.sc_small_linear_plan), (Generated.sc_medium, Generated.sc_medium_plan),
           (Generated.sc_medium_single_site, Generated.sc_medium_single_site_plan),
           (Generated.sc_medium_multi_site, Generated.sc_medium_multi_site_plan)],
      ∃ s, ReachFlat p.1 s ∧ goal p.1.net s = true := by
  have h := Generated.shipped_all_solvable
  intro p hp
  simp only [List.mem_cons, List.not_mem_nil, or_false] at hp
  rcases hp with rfl | rfl | rfl | rfl | rfl | rfl | rfl | rfl | rfl
  · exact C16_plan_witness _ _ h.1
  · exact C16_plan_witness _ _ h.2.1
  · exact C16_plan_witness _ _ h.2.2.1
  · exact C16_plan_witness _ _ h.2.2.2.1
  · exact C16_plan_witness _ _ h.2.2.2.2.1
  · exact C16_plan_witness _ _ h.2.2.2.2.2.1
  · exact C16_plan_witness _ _ h.2.2.2.2.2.2.1
  · exact C16_plan_witness _ _ h.2.2.2.2.2.2.2.1
  · exact C16_plan_witness _ _ h.2.2.2.2.2.2.2.2

end NASim
