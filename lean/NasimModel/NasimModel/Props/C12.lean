import NasimModel.Model.Env
/-!
# C12 — observation and action modes do not change the dynamics

The model's transition function has no mode argument except `fullyObs`, which only selects the
observation; the content of this property is therefore mostly in the correspondence: the
implementation, run in all 8 mode combinations, matches this single mode-free transition
function (DYN suite, lock-step walks).
-/
namespace NASim

/-- C12: next state, reward, terminal flag, result info and draws consumed are the same in fully
and partially observable mode -/
theorem C12_obs_mode (sc : Scenario) (s : State) (a : Action) (u : Rat) :
    (genStep sc true s a u).next = (genStep sc false s a u).next ∧
    (genStep sc true s a u).reward = (genStep sc false s a u).reward ∧
    (genStep sc true s a u).done = (genStep sc false s a u).done ∧
    (genStep sc true s a u).res = (genStep sc false s a u).res ∧
    (genStep sc true s a u).draws = (genStep sc false s a u).draws := ⟨rfl, rfl, rfl, rfl, rfl⟩

/-- two environments agree on everything but observations -/
def SameDyn (e1 e2 : Env) : Prop := e1.sc = e2.sc ∧ e1.cur = e2.cur ∧ e1.steps = e2.steps

theorem apply_sameDyn (e1 e2 : Env) (op : Op) (h : SameDyn e1 e2) :
    SameDyn (e1.apply op) (e2.apply op) := by
  obtain ⟨h1, h2, h3⟩ := h
  cases op with
  | reset => simp [Env.apply, Env.reset, SameDyn, h1, h2]
  | step a u => simp [Env.apply, Env.step, SameDyn, genStep, h1, h2, h3]
  | genStep s a u => exact ⟨h1, h2, h3⟩

/-- C12 over histories: for the same scenario, draws and action sequence, the trajectories of
state and step counter (hence of reward, terminal flag, step-limit flag and info, which are
functions of them by `C12_obs_mode`) coincide in both observability modes -/
theorem C12_history (sc : Scenario) (ops : List Op) :
    SameDyn ((Env.make sc true).run ops) ((Env.make sc false).run ops) := by
  have h0 : SameDyn (Env.make sc true) (Env.make sc false) := ⟨rfl, rfl, rfl⟩
  generalize Env.make sc true = e1 at *
  generalize Env.make sc false = e2 at *
  induction ops generalizing e1 e2 with
  | nil => exact h0
  | cons op ops ih =>
    unfold Env.run; simp only [List.foldl_cons]
    exact ih _ _ (apply_sameDyn e1 e2 op h0)

/-- the step outputs along the two trajectories coincide too -/
theorem C12_step_outputs (e1 e2 : Env) (a : Action) (u : Rat) (h : SameDyn e1 e2) :
    (e1.step a u).2.1.next = (e2.step a u).2.1.next ∧
    (e1.step a u).2.1.reward = (e2.step a u).2.1.reward ∧
    (e1.step a u).2.1.done = (e2.step a u).2.1.done ∧
    (e1.step a u).2.1.res = (e2.step a u).2.1.res ∧
    (e1.step a u).2.2 = (e2.step a u).2.2 := by
  obtain ⟨h1, h2, h3⟩ := h
  simp [Env.step, genStep, h1, h2, h3]

/-- flat and parameterised encodings that denote the same action give the same step -/
theorem C12_action_mode (e : Env) (i : Nat) (v : List Nat) (u : Rat)
    (h : (flatActions e.sc).getD i noopAction = decodeParam e.sc v) :
    e.step ((flatActions e.sc).getD i noopAction) u = e.step (decodeParam e.sc v) u := by rw [h]

/-- 1D observations are the row-major flattening of the 2D ones: nothing else depends on it -/
theorem C12_flat_obs (o : List (List Int)) : flatten2 o = o.flatten := rfl

end NASim
