import NasimModel.Props.SrcBase
/-!
# Source tie: `Network.reset`
-/
open NASim
namespace NASim

/-- `Network.reset`: four writes through the host view per address = the model's row map -/
theorem Src_reset (n : Net) (s : State) (hwf : WF s) (hs : Sync n s) : Src.Network.reset n s = reset n s := by
  unfold Src.Network.reset NASim.reset
  dsimp only
  rw [hs, forEach_rows0 s hwf (fun r => { r with comp := false, access := 0, reach := n.pub r.addr.1, disc := n.pub r.addr.1 })
    (fun _ => rfl)]
  intro pre r post _ hpre hpost
  simp only [src_pub]
  rw [updHost_split (a := r.addr) (hpre := hpre) (hpost := hpost),
    updHost_split (a := r.addr) (hpre := hpre) (hpost := hpost),
    updHost_split (a := r.addr) (hpre := hpre) (hpost := hpost)]
  simp only [PyRt.getHost]
  rw [get_split (a := r.addr) (hpre := hpre), updHost_split (a := r.addr) (hpre := hpre) (hpost := hpost)]
  all_goals rfl

end NASim
