import NasimModel.Model.Env
import NasimModel.Proofs.Inv
import NasimModel.Props.C02
import NasimModel.Props.C03
import NasimModel.Props.C04
/-!
# C05 — reward is value gained minus action cost, and every value is paid once
-/
namespace NASim

/-- C05: every step's reward is the value gained minus the action's cost -/
theorem C05_reward (sc : Scenario) (fo : Bool) (s : State) (a : Action) (u : Rat) :
    (genStep sc fo s a u).reward = (perform sc.net s a u).2.1.value - a.cost := rfl

/-- the flat action space charges what the scenario defines; the no-op is free -/
theorem C05_noop_free : noopAction.cost = 0 := rfl

theorem gate_fail_value {n s a r} (h : gate n s a = .fail r) : r.value = 0 := by
  unfold gate at h
  repeat' split at h
  all_goals simp_all
  all_goals (subst h; rfl)

theorem hostPerform_fail_value (r : Row) (a : Action) (h : (hostPerform r a).2.success = false) :
    (hostPerform r a).2.value = 0 := by
  revert h; unfold hostPerform; repeat' split
  all_goals simp_all

theorem subnetScan_fail_value (n : Net) (s : State) (a : Action)
    (h : (subnetScan n s a).2.success = false) : (subnetScan n s a).2.value = 0 := by
  revert h; unfold subnetScan; simp only []
  repeat' split
  all_goals simp_all

/-- C05: a failed action gains nothing (and still pays its cost, by `C05_reward`) -/
theorem C05_fail_gains_nothing (n : Net) (s : State) (a : Action) (u : Rat)
    (h : (perform n s a u).2.1.success = false) : (perform n s a u).2.1.value = 0 := by
  unfold perform at *
  cases hg : gate n s a with
  | noop => simp
  | fail r => simp [gate_fail_value hg]
  | pass =>
    simp only [hg] at h ⊢
    split
    · rfl
    · rename_i hc
      simp only [hc, if_false] at h
      rw [effect_snd] at h ⊢
      split
      · rename_i hs; simp only [hs, if_true] at h; exact subnetScan_fail_value n s a h
      · rename_i hs; simp only [hs] at h; exact hostPerform_fail_value _ a (by simpa using h)

/-- a no-op gains nothing -/
theorem C05_noop (n : Net) (s : State) (a : Action) (u : Rat) (hk : a.kind = .noop) :
    (perform n s a u).2.1.value = 0 ∧ (perform n s a u).1 = s := by
  unfold perform gate; simp [hk]

/-- C05: targeted scans (service, OS, process) gain nothing -/
theorem C05_scans_gain_nothing (n : Net) (s : State) (a : Action) (u : Rat)
    (hk : a.kind = .svcScan ∨ a.kind = .osScan ∨ a.kind = .procScan) :
    (perform n s a u).2.1.value = 0 := by
  by_cases hs : (perform n s a u).2.1.success = true
  · have hk' : a.kind ≠ .noop := by rcases hk with h | h | h <;> simp [h]
    obtain ⟨_, he, _⟩ := success_pass hk' hs
    rw [he, effect_snd]
    rcases hk with h | h | h <;> simp only [h] <;> unfold hostPerform <;> simp [h]
    repeat' split
    all_goals simp
  · exact C05_fail_gains_nothing n s a u (by simpa using hs)

/-- C05: an exploit or escalation gains the target's value exactly when this step takes the
target's access from below ROOT to ROOT, and nothing otherwise -/
theorem C05_host_value (n : Net) (s : State) (a : Action) (u : Rat) (hwf : WF s)
    (hk : a.kind = .exploit ∨ a.kind = .privesc) (hg : ActOk a)
    (hacc : (s.get a.target).access ≤ 2) :
    (perform n s a u).2.1.value =
      if (s.get a.target).access ≠ 2 ∧ (State.get (perform n s a u).1 a.target).access = 2
      then (s.get a.target).value else 0 := by
  have hk' : a.kind ≠ .noop := by rcases hk with h | h <;> simp [h]
  have hns : (a.kind == Kind.subnetScan) = false := by rcases hk with h | h <;> simp [h]
  by_cases hs : (perform n s a u).2.1.success = true
  · obtain ⟨hgate, he, _⟩ := success_pass hk' hs
    obtain ⟨htreach, _⟩ := gate_pass_target hgate
    have hmem := get_mem_of_reach htreach
    have hc : ¬ (drawsNeeded s a = 1 ∧ u > a.prob) := by
      intro hc; unfold perform at hs; simp [hgate, hc, chanceFail] at hs
    have hsucc : (hostPerform (s.get a.target) a).2.success = true := by
      rw [he, effect_snd] at hs; simpa [hns] using hs
    have hacc' : (State.get (perform n s a u).1 a.target).access
        = (hostRow a (s.get a.target)).access := by
      rw [perform_eq_map, get_map (stepRow_addr n s a u) hmem]
      simp only [stepRow, hgate, hc, if_false, effRow, hns, hmem.2, beq_self_eq_true, if_true]
      repeat' split
      all_goals simp_all
    rw [hacc', he, effect_snd]
    simp only [hns, Bool.false_eq_true, if_false]
    revert hsucc
    unfold hostRow hostPerform gain raiseAccess
    obtain ⟨hg1, hg2⟩ := hg hk
    rcases hk with h | h <;> simp only [h] <;> simp
    all_goals repeat' split
    all_goals simp_all
    all_goals omega
  · have hs' : (perform n s a u).2.1.success = false := by simpa using hs
    rw [C05_fail_gains_nothing n s a u hs', C02_fail_changes_nothing n s a u hwf hs']
    split
    · rename_i h; exact absurd h.2 h.1
    · rfl

/-- C05: a subnet scan gains the discovery values of exactly the rows this step discovers for the
first time -/
theorem C05_discovery_value (n : Net) (s : State) (a : Action) (u : Rat)
    (hk : a.kind = .subnetScan) :
    (perform n s a u).2.1.value =
      (s.filter fun r => !r.disc && (stepRow n s a u r).disc).foldl (fun acc r => acc + r.dvalue) 0 := by
  by_cases hs : (perform n s a u).2.1.success = true
  · have hk' : a.kind ≠ .noop := by simp [hk]
    obtain ⟨_, he, _⟩ := success_pass hk' hs
    have hfil : (fun r : Row => !r.disc && (stepRow n s a u r).disc)
        = (fun r : Row => n.conn a.target.1 r.addr.1 && !r.disc) := by
      funext r
      rw [C03_scan_discovers n s a u hk hs r]
      cases r.disc <;> simp
    rw [hfil, he, effect_snd]
    simp only [hk, beq_self_eq_true, if_true]
    have : (subnetScan n s a).2.success = true := by
      rw [he, effect_snd] at hs; simpa [hk] using hs
    revert this
    unfold subnetScan; simp only []
    repeat' split
    all_goals simp_all
  · have hs' : (perform n s a u).2.1.success = false := by simpa using hs
    rw [C05_fail_gains_nothing n s a u hs']
    have : ∀ r, (stepRow n s a u r).disc = r.disc := by
      intro r
      unfold stepRow
      cases hg : gate n s a with
      | noop => rfl
      | fail _ => rfl
      | pass =>
        simp only []
        split
        · rfl
        · rename_i hc
          have hres : (subnetScan n s a).2.success = false := by
            unfold perform at hs'; simp only [hg, hc, if_false] at hs'
            rw [effect_snd] at hs'; simpa [hk] using hs'
          unfold effRow
          simp [hk, subnetScan_fail n s a hres]
    have hnil : (s.filter fun r => !r.disc && (stepRow n s a u r).disc) = [] := by
      apply List.filter_eq_nil_iff.mpr
      intro r _; rw [this]; cases r.disc <;> simp
    rw [hnil]; rfl

/-- access ROOT on a host is never lost (used for "paid at most once") -/
theorem root_stays (n : Net) (s : State) (a : Action) (u : Rat) (h : Addr) (hg : ActOk a)
    (hacc : AccOk s) (hroot : (s.get h).access = 2) :
    (State.get (perform n s a u).1 h).access = 2 := by
  have hmem : s.get h ∈ s ∧ (s.get h).addr = h := by
    unfold State.get at *
    cases hf : s.find? (fun r => r.addr == h) with
    | none => simp [hf] at hroot; exact absurd hroot (by decide)
    | some r =>
      simp only [Option.getD_some]
      exact ⟨List.mem_of_find?_eq_some hf, by simpa using List.find?_some hf⟩
  rw [perform_eq_map, get_map (stepRow_addr n s a u) hmem]
  have h1 := (stepRow_le n s a u (s.get h) hg (hacc _ hmem.1)).2.2.2
  have h2 := stepRow_accOk n s a u (s.get h) hg (hacc _ hmem.1)
  omega

/-- C05: a host's value is paid at most once per episode: once ROOT is held on a host (in
particular after the step that paid its value) no later step of any history gains it again -/
theorem C05_host_value_paid_once (n : Net) (s0 s : State) (h : Addr)
    (h0 : AccOk s0) (hwf : WF s0) (hroot : (s0.get h).access = 2) (hr : Reach n s0 s)
    (a : Action) (u : Rat) (ht : a.target = h) (hk : a.kind = .exploit ∨ a.kind = .privesc)
    (hg : ActOk a) : (perform n s a u).2.1.value = 0 := by
  have hroot' : (s.get h).access = 2 := by
    induction hr with
    | init => exact hroot
    | step a' u' hok hprev ih => exact root_stays n _ a' u' h hok (reach_accOk n s0 _ h0 hprev) ih
  have hwf' : WF s := (reach_inv_wf n s0 s hwf hr)
  rw [C05_host_value n s a u hwf' hk hg (by rw [ht, hroot']; omega)]
  simp [ht, hroot']

/-- C05: a discovery value is paid at most once: a discovered row stays discovered, and only rows
that were not discovered contribute to a scan's gain (`C05_discovery_value`) -/
theorem C05_discovery_paid_once (n : Net) (s : State) (a : Action) (u : Rat) (r : Row)
    (hd : r.disc = true) :
    (stepRow n s a u r).disc = true ∧ (!r.disc && (stepRow n s a u r).disc) = false := by
  have := stepRow_cfg n s a u r
  refine ⟨?_, by simp [hd]⟩
  unfold stepRow effRow
  repeat' split
  all_goals simp_all [discRow_disc]

end NASim
