import NasimModel.Props.SrcLayout
/-!
# Source tie: `HostVector.is_running_service / is_running_os / is_running_process`

The host-level preconditions of exploits and escalations read, through the name → position maps and
`_get_*_idx`, exactly the flag the documented row carries for that service / OS / process.  (In the dynamics world
of `Generated/SrcDyn.lean` these three are vocabulary: `PyRt.isRunningSvc r k = r.svc.getD k false`; this theorem is
what that vocabulary says, proved of the translated source over the raw vector.)
-/
open NASim
namespace NASim

theorem slice_getD (v : List Int) (a b k : Nat) (hk : k < b - a) (hb : b ≤ v.length) :
    (slice v a b).getD k 0 = v.getD (a + k) 0 := by
  unfold slice
  simp only [List.getD_eq_getElem?_getD]
  rw [List.getElem?_take_of_lt hk, List.getElem?_drop]

theorem bi_getD (l : List Bool) (k : Nat) : ((l.map bi).getD k 0 != 0) = l.getD k false := by
  simp only [List.getD_eq_getElem?_getD, List.getElem?_map]
  cases h : l[k]? with
  | none => rfl
  | some b => cases b <;> rfl

/-- C01's host-level preconditions over the translated source: the three `is_running_*` tests on the documented
row of a host are the host's own flags -/
theorem Src_is_running (L : Layout) (r : Row) (k : Nat) (h : RowFits L r) :
    (k < L.nSvc → SrcObs.HostVector.is_running_service L (encodeRow L r) k = PyRt.isRunningSvc r k) ∧
    (k < L.nOs → SrcObs.HostVector.is_running_os L (encodeRow L r) k = PyRt.isRunningOs r (some k)) ∧
    (k < L.nProc → SrcObs.HostVector.is_running_process L (encodeRow L r) k = PyRt.isRunningProc r (some k)) := by
  obtain ⟨_, _, s3, s4, s5⟩ := encodeRow_slices L r h
  have hl := encodeRow_length L r h
  have hsz : L.stateSize = L.procStart + L.nProc := rfl
  have hps : L.procStart = L.svcStart + L.nSvc := rfl
  have hss : L.svcStart = L.osStart + L.nOs := rfl
  refine ⟨fun hk => ?_, fun hk => ?_, fun hk => ?_⟩
  · unfold SrcObs.HostVector.is_running_service PyRt.isRunningSvc
    simp only [(Src_slices L k).2.2.2.2.2.2.1, PyRt.at1]
    rw [← slice_getD _ L.svcStart L.procStart k (by omega) (by omega), s4, bi_getD]
  · unfold SrcObs.HostVector.is_running_os PyRt.isRunningOs
    simp only [(Src_slices L k).2.2.2.2.2.1, PyRt.at1]
    rw [← slice_getD _ L.osStart L.svcStart k (by omega) (by omega), s3, bi_getD]
  · unfold SrcObs.HostVector.is_running_process PyRt.isRunningProc
    simp only [(Src_slices L k).2.2.2.2.2.2.2, PyRt.at1]
    rw [← slice_getD _ L.procStart L.stateSize k (by omega) (by omega), s5, bi_getD]

end NASim
