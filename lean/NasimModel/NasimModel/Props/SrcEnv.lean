import NasimModel.Props.SrcBase
/-!
# Source tie: `NASimEnv.generative_step`, `step`, `reset`

The translated environment wrapper equals the model's `genStep`, `Env.step`, `Env.reset`, given
the ties of `Network.perform_action`, `all_sensitive_hosts_compromised` and `Network.reset`
(hypotheses here, theorems of `SrcPerform` / `SrcGoal` / `SrcReset`; `SrcAll` discharges them):
reward = value − cost, done = goal(next state), the observation is taken of the *next* state,
`step` runs the generative step on the current state, installs its result, counts, and compares the
counter with the step limit.
-/
open NASim
namespace NASim

theorem Src_generative_step (e : Env) (s : State) (a : Action) (u : Rat)
    (hPerform : Src.Network.perform_action e.sc.net s a u =
      (((perform e.sc.net s a u).1, (perform e.sc.net s a u).2.1), (perform e.sc.net s a u).2.2))
    (hGoal : ∀ s', Src.Network.all_sensitive_hosts_compromised e.sc.net s' = goal e.sc.net s') :
    Src.NASimEnv.generative_step e s a u =
      (((genStep e.sc e.fullyObs s a u).next, (genStep e.sc e.fullyObs s a u).obs, (genStep e.sc e.fullyObs s a u).reward,
        (genStep e.sc e.fullyObs s a u).done, (genStep e.sc e.fullyObs s a u).res), (genStep e.sc e.fullyObs s a u).draws) := by
  unfold Src.NASimEnv.generative_step Src.NASimEnv.goal_reached genStep
  dsimp only
  simp [hPerform, hGoal, PyRt.getObservation]

theorem Src_step (e : Env) (a : Action) (u : Rat)
    (hGen : Src.NASimEnv.generative_step e e.cur a u =
      (((genStep e.sc e.fullyObs e.cur a u).next, (genStep e.sc e.fullyObs e.cur a u).obs,
        (genStep e.sc e.fullyObs e.cur a u).reward, (genStep e.sc e.fullyObs e.cur a u).done,
        (genStep e.sc e.fullyObs e.cur a u).res), (genStep e.sc e.fullyObs e.cur a u).draws)) :
    Src.NASimEnv.step e a u =
      (((e.step a u).1, ((e.step a u).2.1.obs, (e.step a u).2.1.reward, (e.step a u).2.1.done, (e.step a u).2.2,
        (e.step a u).2.1.res)), (e.step a u).2.1.draws) := by
  unfold Src.NASimEnv.step Env.step truncated
  dsimp only
  rw [hGen]
  simp only [PyRt.flatObs, if_true, Nat.zero_add]
  cases h : e.sc.stepLimit <;> simp [PyRt.geOptInt]

theorem Src_env_reset (e : Env) (hReset : Src.Network.reset e.sc.net e.cur = reset e.sc.net e.cur) :
    Src.NASimEnv.reset e = (e.reset, (e.reset.lastObs, ())) := by
  unfold Src.NASimEnv.reset Env.reset
  dsimp only
  simp [hReset, PyRt.getInitialObservation, PyRt.flatObs]

end NASim
