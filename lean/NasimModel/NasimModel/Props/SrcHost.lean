import NasimModel.Props.SrcBase
/-!
# Source tie: `HostVector.perform_action`

The host-level semantics of every action type (service / OS present, on-host access test, access
only raised when not already ROOT, value only when ROOT is newly obtained) as the repository's
source spells it, equal to the model's `hostPerform` for every row and action.
-/
open NASim
namespace NASim

/-- `HostVector.perform_action`, translated from its source text, is the model's `hostPerform` -/
theorem Src_host_perform (r : Row) (a : Action) : Src.HostVector.perform_action r a = hostPerform r a := by
  unfold Src.HostVector.perform_action hostPerform
  simp only [Src.Action.is_service_scan, Src.Action.is_os_scan, Src.Action.is_exploit, Src.Action.is_process_scan,
    Src.Action.is_privilege_escalation, isNone_or_runningOs, isNone_or_runningProc, PyRt.isRunningSvc,
    exploitApplies, privescApplies, onHostOk, raiseAccess, gain]
  cases hk : a.kind <;> simp <;> (repeat' split) <;> simp_all <;> (cases r; simp_all)

end NASim
