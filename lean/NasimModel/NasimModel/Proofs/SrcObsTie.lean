import NasimModel.Props.SrcObserve
import NasimModel.Proofs.SrcTie
/-!
# Lemmas for tying `observe` / `initialObs` to the translated `State.get_observation` / `get_initial_observation`

Generic facts: loops that never leave early are folds; a fold of conditional row stores touches exactly the rows it
names; the `host_num_map` of a state with distinct addresses maps an address to its row number.
-/
open NASim
namespace NASim

theorem observeRow_empty_zeros' (L : Layout) (x : Row) (h : RowFits L x) : observeRow L x {} = zeros L.stateSize := by
  obtain ⟨ho, hv, hp⟩ := h
  rw [observeRow_empty, ho, hv, hp, stateSize_eq]
  have : ([0, 0, 0, 0, 0, 0] : List Int) = zeros 6 := rfl
  rw [this, ← zeros_add, ← zeros_add, ← zeros_add, ← zeros_add]

/-- the raw arrays of a model state: its rows in the documented encoding, and the address → row-number map -/
def rawOf (L : Layout) (s : State) : PyRt.RawState :=
  { tensor := s.map (encodeRow L), host_num_map := (s.map (·.addr)).zip (List.range s.length) }

/-- conditional row stores, one per key -/
def storeRows (c : Addr → Bool) (idx : Addr → Nat) (v : Addr → List Int) (T : List (List Int)) (ks : List Addr) :
    List (List Int) :=
  ks.foldl (fun T k => if c k then T.set (idx k) (v k) else T) T

theorem storeRows_length (c : Addr → Bool) (idx : Addr → Nat) (v : Addr → List Int) (T : List (List Int)) (ks : List Addr) :
    (storeRows c idx v T ks).length = T.length := by
  unfold storeRows
  induction ks generalizing T with
  | nil => rfl
  | cons k ks ih =>
    simp only [List.foldl_cons]
    rw [ih]
    split <;> simp

theorem storeRows_miss (c : Addr → Bool) (idx : Addr → Nat) (v : Addr → List Int) (T : List (List Int)) (ks : List Addr)
    (j : Nat) (h : ∀ k ∈ ks, c k = true → idx k ≠ j) : (storeRows c idx v T ks)[j]? = T[j]? := by
  unfold storeRows
  induction ks generalizing T with
  | nil => rfl
  | cons k ks ih =>
    simp only [List.foldl_cons]
    rw [ih _ (fun k' hk' => h k' (List.mem_cons_of_mem _ hk'))]
    by_cases hc : c k = true
    · simp only [hc, if_true]
      rw [List.getElem?_set_ne (h k (List.mem_cons_self ..) hc)]
    · simp [hc]

theorem storeRows_hit (c : Addr → Bool) (idx : Addr → Nat) (v : Addr → List Int) (T : List (List Int)) (ks : List Addr)
    (k0 : Addr) (hk0 : k0 ∈ ks) (hc : c k0 = true) (hlen : idx k0 < T.length)
    (hinj : ∀ k ∈ ks, c k = true → idx k = idx k0 → v k = v k0) :
    (storeRows c idx v T ks)[idx k0]? = some (v k0) := by
  unfold storeRows
  induction ks generalizing T with
  | nil => cases hk0
  | cons k ks ih =>
    simp only [List.foldl_cons]
    by_cases hin : k0 ∈ ks
    · refine ih _ hin ?_ (fun k' hk' => hinj k' (List.mem_cons_of_mem _ hk'))
      split <;> simp [hlen]
    · have hk : k = k0 := by
        rcases List.mem_cons.mp hk0 with h | h
        · exact h.symm
        · exact absurd h hin
      subst hk
      simp only [hc, if_true]
      by_cases hany : ∃ k' ∈ ks, c k' = true ∧ idx k' = idx k
      · -- a later key writes the same row: it writes the same value
        exact storeRows_hit_aux c idx v (T.set (idx k) (v k)) ks k (by simp [hlen])
          (fun k'' hk'' => hinj k'' (List.mem_cons_of_mem _ hk'')) (by simp [hlen])
      · have hmiss : ∀ k' ∈ ks, c k' = true → idx k' ≠ idx k := by
          intro k' hk' hc' he; exact hany ⟨k', hk', hc', he⟩
        have := storeRows_miss c idx v (T.set (idx k) (v k)) ks (idx k) hmiss
        unfold storeRows at this
        rw [this]
        simp [hlen]
where
  storeRows_hit_aux (c : Addr → Bool) (idx : Addr → Nat) (v : Addr → List Int) (T : List (List Int)) (ks : List Addr)
      (k0 : Addr) (hlen : idx k0 < T.length)
      (hinj : ∀ k ∈ ks, c k = true → idx k = idx k0 → v k = v k0) (hT : T[idx k0]? = some (v k0)) :
      (ks.foldl (fun T k => if c k then T.set (idx k) (v k) else T) T)[idx k0]? = some (v k0) := by
    induction ks generalizing T with
    | nil => exact hT
    | cons k ks ih =>
      simp only [List.foldl_cons]
      refine ih _ ?_ (fun k' hk' => hinj k' (List.mem_cons_of_mem _ hk')) ?_
      · split <;> simp [hlen]
      · by_cases hc : c k = true
        · simp only [hc, if_true]
          by_cases he : idx k = idx k0
          · rw [he, List.getElem?_set_self hlen, hinj k (List.mem_cons_self ..) hc he]
          · rw [List.getElem?_set_ne he]; exact hT
        · simp [hc, hT]

/-- in a zip of distinct keys with consecutive numbers, a key finds its position -/
theorem lookup_zip_range (l : List Addr) (k i : Nat) (a : Addr) (hn : l.Nodup) (hi : l[i]? = some a) :
    (l.zip (List.range' k l.length)).lookup a = some (k + i) := by
  induction l generalizing k i with
  | nil => simp at hi
  | cons x xs ih =>
    simp only [List.length_cons, List.range'_succ, List.zip_cons_cons, List.lookup_cons]
    rw [List.nodup_cons] at hn
    cases i with
    | zero =>
      simp only [List.getElem?_cons_zero, Option.some.injEq] at hi
      subst hi; simp
    | succ i =>
      simp only [List.getElem?_cons_succ] at hi
      have hne : (a == x) = false := by
        have : a ∈ xs := List.mem_of_getElem? hi
        apply beq_false_of_ne
        intro h; subst h; exact hn.1 this
      simp only [hne]
      rw [ih (k + 1) i hn.2 hi]; congr 1; omega

theorem numMapGet_rawOf (L : Layout) (s : State) (hwf : WF s) (i : Nat) (x : Row) (hx : s[i]? = some x) :
    PyRt.numMapGet (rawOf L s).host_num_map x.addr = i := by
  unfold PyRt.numMapGet rawOf
  simp only [List.range_eq_range']
  have := lookup_zip_range (s.map (fun (r : Row) => r.addr)) 0 i x.addr hwf (by simp [hx])
  simp only [List.length_map, Nat.zero_add] at this
  rw [this]; rfl

theorem row_rawOf (L : Layout) (s : State) (i : Nat) (x : Row) (hx : s[i]? = some x) :
    PyRt.row (rawOf L s).tensor i = encodeRow L x := by
  simp [PyRt.row, rawOf, hx]

theorem storeRows_congr (c : Addr → Bool) (idx : Addr → Nat) (v v' : Addr → List Int) (T : List (List Int)) (ks : List Addr)
    (h : ∀ k ∈ ks, v k = v' k) : storeRows c idx v T ks = storeRows c idx v' T ks := by
  unfold storeRows
  induction ks generalizing T with
  | nil => rfl
  | cons k ks ih =>
    simp only [List.foldl_cons]
    rw [h k (List.mem_cons_self ..)]
    exact ih _ (fun k' hk' => h k' (List.mem_cons_of_mem _ hk'))

/-- an address of the state sits at some row, and the `host_num_map` finds that row -/
theorem pos_of_mem (L : Layout) (s : State) (hwf : WF s) (k : Addr) (hk : k ∈ s.map (·.addr)) :
    ∃ j x, s[j]? = some x ∧ x.addr = k ∧ PyRt.numMapGet (rawOf L s).host_num_map k = j ∧ j < s.length := by
  obtain ⟨x, hx, hxa⟩ := List.mem_map.1 hk
  obtain ⟨j, hj, hjx⟩ := List.getElem_of_mem hx
  have h1 : s[j]? = some x := by rw [List.getElem?_eq_getElem hj, hjx]
  exact ⟨j, x, h1, hxa, hxa ▸ numMapGet_rawOf L s hwf j x h1, hj⟩

/-- the rows a partially observable observation ends up with: a zero tensor with the auxiliary row, conditional
stores for the keys of the scan dictionary, then the store for the target -/
theorem obs_rows (L : Layout) (s : State) (hwf : WF s) (hfit : ∀ r ∈ s, RowFits L r)
    (c : Addr → Bool) (m : Addr → Mask) (ks : List Addr) (hks : ∀ k ∈ ks, k ∈ s.map (·.addr))
    (t : Addr) (ht : t ∈ s.map (·.addr)) (tm : Mask) (aux : List Int) :
    (storeRows c (fun k => PyRt.numMapGet (rawOf L s).host_num_map k) (fun k => observeRow L (s.get k) (m k))
        (List.replicate s.length (zeros L.stateSize) ++ [aux]) ks).set
      (PyRt.numMapGet (rawOf L s).host_num_map t) (observeRow L (s.get t) tm) =
    s.map (fun x => observeRow L x (if x.addr == t then tm else if c x.addr && ks.contains x.addr then m x.addr else {}))
      ++ [aux] := by
  obtain ⟨jt, xt, hxt, hxta, hjt, hjtn⟩ := pos_of_mem L s hwf t ht
  apply List.ext_getElem?
  intro j
  have hlen : (storeRows c (fun k => PyRt.numMapGet (rawOf L s).host_num_map k) (fun k => observeRow L (s.get k) (m k))
      (List.replicate s.length (zeros L.stateSize) ++ [aux]) ks).length = s.length + 1 := by
    rw [storeRows_length]; simp
  have hidx : ∀ k ∈ ks, ∀ j x, s[j]? = some x → PyRt.numMapGet (rawOf L s).host_num_map k = j → k = x.addr := by
    intro k hk j x hx hj
    obtain ⟨j', x', hx', hxa', hj', _⟩ := pos_of_mem L s hwf k (hks k hk)
    have : j' = j := hj'.symm.trans hj
    subst this
    rw [hx] at hx'
    cases hx'; exact hxa'.symm
  rcases Nat.lt_trichotomy j s.length with hj | hj | hj
  · -- a host row
    obtain ⟨x, hx⟩ : ∃ x, s[j]? = some x := ⟨s[j], List.getElem?_eq_getElem hj⟩
    have hxm : x ∈ s := List.mem_of_getElem? hx
    have hjx := numMapGet_rawOf L s hwf j x hx
    rw [List.getElem?_append_left (by simpa using hj), List.getElem?_map, hx, Option.map_some]
    by_cases hta : x.addr = t
    · have : jt = j := by rw [← hjt, ← hta, hjx]
      subst this
      rw [hjt, List.getElem?_set_self (by rw [hlen]; omega)]
      have : s.get t = x := hta ▸ get_of_mem hwf hxm
      simp [hta, this]
    · have hne : PyRt.numMapGet (rawOf L s).host_num_map t ≠ j := by
        rw [hjt]; intro he; subst he; rw [hx] at hxt; cases hxt; exact hta hxta
      rw [List.getElem?_set_ne hne]
      have hb : (x.addr == t) = false := beq_false_of_ne hta
      simp only [hb, Bool.false_eq_true, if_false]
      by_cases hc : (c x.addr && ks.contains x.addr) = true
      · simp only [hc, if_true]
        rw [Bool.and_eq_true] at hc
        have hmem : x.addr ∈ ks := by simpa using hc.2
        have := storeRows_hit c (fun k => PyRt.numMapGet (rawOf L s).host_num_map k) (fun k => observeRow L (s.get k) (m k))
          (List.replicate s.length (zeros L.stateSize) ++ [aux]) ks x.addr hmem hc.1 (by simp [hjx]; omega)
          (fun k hk _ he => by
            have : k = x.addr := hidx k hk j x hx (by simpa [hjx] using he)
            rw [this])
        simp only [hjx] at this
        rw [this, get_of_mem hwf hxm]
      · simp only [hc, Bool.false_eq_true, if_false]
        rw [storeRows_miss _ _ _ _ _ j (fun k hk hck he => by
          have : k = x.addr := hidx k hk j x hx he
          subst this
          apply hc
          rw [Bool.and_eq_true]; exact ⟨hck, by simpa using hk⟩)]
        rw [List.getElem?_append_left (by simpa using hj), List.getElem?_replicate]
        simp [hj, observeRow_empty_zeros' L x (hfit x hxm)]
  · -- the auxiliary row
    subst hj
    have hne : PyRt.numMapGet (rawOf L s).host_num_map t ≠ s.length := by rw [hjt]; omega
    rw [List.getElem?_set_ne hne, storeRows_miss _ _ _ _ _ s.length (fun k hk _ he => by
      obtain ⟨j', _, _, _, hj', hlt⟩ := pos_of_mem L s hwf k (hks k hk)
      have : j' = s.length := hj'.symm.trans he
      omega)]
    simp
  · rw [List.getElem?_eq_none (by rw [List.length_set, hlen]; omega), List.getElem?_eq_none (by simp; omega)]

end NASim
