import NasimModel.Model.Env
/-! Histories over a scenario's own flat action space. -/
namespace NASim

/-- histories whose actions are taken from the scenario's flat action space (or the no-op) -/
inductive ReachFlat (sc : Scenario) : State → Prop
  | init : ReachFlat sc sc.init
  | step {s} (i : Nat) (u : Rat) : ReachFlat sc s →
      ReachFlat sc (perform sc.net s ((flatActions sc).getD i noopAction) u).1

end NASim
