import NasimModel.Proofs.GenInv
/-! Host well-formedness along the generator: exactly one OS, at least one service and process. -/
namespace NASim.Gen

theorem countTrue_pos_iff (l : List Bool) : 1 ≤ countTrue l ↔ true ∈ l := by
  unfold countTrue
  induction l with
  | nil => simp
  | cons x xs ih => cases x <;> simp [List.filter_cons, ih]

theorem countTrue_append (a b : List Bool) : countTrue (a ++ b) = countTrue a + countTrue b := by
  simp [countTrue, List.filter_append]

theorem countTrue_onehotB (n i : Nat) : countTrue (onehotB n i) = if i < n then 1 else 0 := by
  unfold onehotB
  induction n with
  | zero => simp [countTrue]
  | succ n ih =>
    rw [List.range_succ, List.map_append, countTrue_append, ih]
    by_cases h1 : i < n
    · have : (n == i) = false := by simp; omega
      simp [h1, countTrue, this]; omega
    · by_cases h2 : i = n
      · subst h2; simp [countTrue]
      · have : (n == i) = false := by simp; omega
        have h3 : ¬ i < n + 1 := by omega
        simp [h1, h3, countTrue, this]

theorem onehotB_length (n i : Nat) : (onehotB n i).length = n := by simp [onehotB]

theorem mem_set_true (l : List Bool) (x : Nat) (h : true ∈ l) : true ∈ l.set x true := by
  obtain ⟨j, hj, hv⟩ := List.mem_iff_getElem.mp h
  apply List.mem_iff_getElem.mpr
  refine ⟨j, by simpa using hj, ?_⟩
  rw [List.getElem_set]
  split <;> simp [hv]

theorem mem_set_true_self (l : List Bool) (x : Nat) (h : x < l.length) : true ∈ l.set x true := by
  apply List.mem_iff_getElem.mpr
  exact ⟨x, by simpa using h, by simp⟩

/-- host invariant: one flag per OS / service / process, exactly one OS, ≥ 1 service, ≥ 1 process -/
def HostWF (p : Params) (h : HostDef) : Prop :=
  h.os.length = p.numOs ∧ h.svc.length = p.numServices ∧ h.proc.length = p.numProcesses
    ∧ countTrue h.os = 1 ∧ true ∈ h.svc ∧ true ∈ h.proc

theorem hostOk_of_wf {p : Params} {h : HostDef} (hw : HostWF p h) : hostOk p h = true := by
  obtain ⟨a, b, c, d, e, f⟩ := hw
  simp [hostOk, a, b, c, d, (countTrue_pos_iff _).mpr e, (countTrue_pos_iff _).mpr f]

def CfgOk (p : Params) (c : Cfg) : Prop :=
  c.1 < p.numOs ∧ c.2.1.length = p.numServices ∧ true ∈ c.2.1 ∧ c.2.2.length = p.numProcesses ∧ true ∈ c.2.2

theorem mkHost_wf (p : Params) (sens : List (Addr × Int)) (a : Addr) (c : Cfg) (h : CfgOk p c) :
    HostWF p (mkHost p sens a c) := by
  obtain ⟨h1, h2, h3, h4, h5⟩ := h
  refine ⟨onehotB_length _ _, h2, h4, ?_, h3, h5⟩
  simp [mkHost, countTrue_onehotB, h1]

/-! ### correlated configurations -/

theorem freshOrPrev_lt {fresh : Bool} {draw : G Nat} {prev : List Nat} {k : Nat} {s s' : List Tok} {x : Nat}
    (h : freshOrPrev fresh draw prev s = .ok (x, s'))
    (hd : ∀ s s' x, draw s = .ok (x, s') → x < k) (hp : ∀ y ∈ prev, y < k) : x < k := by
  unfold freshOrPrev at h
  split at h
  · exact hd _ _ _ h
  · obtain ⟨j, s1, hj, h⟩ := bind_ok h
    obtain ⟨rfl, _⟩ := pure_ok h
    have := choice1_ok hj
    rw [List.getD_eq_getElem?_getD, List.getElem?_eq_getElem this]
    exact hp _ (List.getElem_mem this)

theorem dpLoop_inv (alphaV : Rat) (numOptions : Nat) :
    ∀ (k i : Nat) (cfg : List Bool) (prev : List Nat) (s s' : List Tok) (r : List Bool × List Nat),
    dpLoop alphaV numOptions k i cfg prev s = .ok (r, s') →
    cfg.length = numOptions → (∀ y ∈ prev, y < numOptions) →
    r.1.length = numOptions ∧ (∀ y ∈ r.2, y < numOptions) ∧ (true ∈ cfg → true ∈ r.1)
      ∧ (0 < k → true ∈ r.1) := by
  intro k
  induction k with
  | zero =>
    intro i cfg prev s s' r h hl hp
    simp only [dpLoop] at h
    obtain ⟨rfl, _⟩ := pure_ok h
    exact ⟨hl, hp, id, fun h => absurd h (by omega)⟩
  | succ k ih =>
    intro i cfg prev s s' r h hl hp
    simp only [dpLoop] at h
    obtain ⟨fresh, s1, _, h⟩ := bind_ok h
    obtain ⟨x, s2, hx, h⟩ := bind_ok h
    have hxlt : x < numOptions := by
      apply freshOrPrev_lt hx _ hp
      intro t t' v hv
      obtain ⟨w, t1, hw, hv⟩ := bind_ok hv
      obtain ⟨rfl, _⟩ := pure_ok hv
      have := randint_ok hw
      omega
    obtain ⟨a, b, c, _⟩ := ih (i + 1) (cfg.set x true) (prev ++ [x]) s2 s' r h (by simpa using hl)
      (by intro y hy; rcases List.mem_append.mp hy with hy | hy
          · exact hp y hy
          · simp at hy; omega)
    have hset : true ∈ cfg.set x true := mem_set_true_self cfg x (by omega)
    exact ⟨a, b, fun _ => c hset, fun _ => c hset⟩

theorem dirichletProcess_inv {alphaV : Rat} {numOptions : Nat} {prev : List Nat} {s s' : List Tok}
    {r : List Bool × List Nat} (h : dirichletProcess alphaV numOptions prev s = .ok (r, s'))
    (hp : ∀ y ∈ prev, y < numOptions) :
    r.1.length = numOptions ∧ (∀ y ∈ r.2, y < numOptions) ∧ true ∈ r.1 := by
  unfold dirichletProcess at h
  obtain ⟨n, s1, _, h⟩ := bind_ok h
  obtain ⟨a, b, _, d⟩ := dpLoop_inv _ _ _ _ _ _ _ _ _ h (by simp) hp
  exact ⟨a, b, d (by omega)⟩

theorem dirichletSample_inv {alphaV : Rat} {k : Nat} {prev : List Nat} {s s' : List Tok}
    {r : Nat × List Nat} (h : dirichletSample alphaV k prev s = .ok (r, s')) (hp : ∀ y ∈ prev, y < k) :
    r.1 < k ∧ ∀ y ∈ r.2, y < k := by
  unfold dirichletSample at h
  obtain ⟨fresh, s1, _, h⟩ := bind_ok h
  obtain ⟨c, s2, hc, h⟩ := bind_ok h
  obtain ⟨rfl, _⟩ := pure_ok h
  have hlt : c < k := freshOrPrev_lt hc (fun _ _ _ hv => choice1_ok hv) hp
  refine ⟨hlt, ?_⟩
  intro y hy
  rcases List.mem_append.mp hy with hy | hy
  · exact hp y hy
  · simp at hy; omega

/-- what the sampler remembers stays consistent -/
def PrevOk (p : Params) (prev : Prev) : Prop :=
  (∀ c ∈ prev.configs, CfgOk p c) ∧ (∀ y ∈ prev.os, y < p.numOs) ∧ (∀ y ∈ prev.srvs, y < p.numServices)
    ∧ (∀ y ∈ prev.procs, y < p.numProcesses)

theorem hostConfig_inv {p : Params} {n : Nat} {prev : Prev} {s s' : List Tok} {r : Cfg × Prev}
    (h : hostConfig p n prev s = .ok (r, s')) (hp : PrevOk p prev) : CfgOk p r.1 ∧ PrevOk p r.2 := by
  obtain ⟨h1, h2, h3, h4⟩ := hp
  unfold hostConfig at h
  obtain ⟨newCfg, s1, _, h⟩ := bind_ok h
  split at h
  · unfold sampleConfig at h
    obtain ⟨o, s2, ho, h⟩ := bind_ok h
    obtain ⟨sv, s3, hsv, h⟩ := bind_ok h
    obtain ⟨pr, s4, hpr, h⟩ := bind_ok h
    obtain ⟨rfl, _⟩ := pure_ok h
    obtain ⟨o1, o2⟩ := dirichletSample_inv ho h2
    obtain ⟨a1, a2, a3⟩ := dirichletProcess_inv hsv h3
    obtain ⟨b1, b2, b3⟩ := dirichletProcess_inv hpr h4
    have hc : CfgOk p (o.1, sv.1, pr.1) := ⟨o1, a1, a3, b1, b3⟩
    refine ⟨hc, ?_, o2, a2, b2⟩
    intro c hcm
    rcases List.mem_append.mp hcm with hcm | hcm
    · exact h1 c hcm
    · simp at hcm; subst hcm; exact hc
  · unfold reuseConfig at h
    obtain ⟨j, s2, hj, h⟩ := bind_ok h
    obtain ⟨rfl, _⟩ := pure_ok h
    have hjl := choice1_ok hj
    have hc : CfgOk p (prev.configs.getD j default) := by
      rw [List.getD_eq_getElem?_getD, List.getElem?_eq_getElem hjl]
      exact h1 _ (List.getElem_mem hjl)
    refine ⟨hc, ?_, h2, h3, h4⟩
    intro c hcm
    rcases List.mem_append.mp hcm with hcm | hcm
    · exact h1 c hcm
    · simp at hcm; subst hcm; exact hc

theorem correlatedHosts_wf (p : Params) (sens : List (Addr × Int)) :
    ∀ (as : List Addr) (n : Nat) (prev : Prev) (s s' : List Tok) (hs : List HostDef),
    correlatedHosts p sens as n prev s = .ok (hs, s') → PrevOk p prev → ∀ h ∈ hs, HostWF p h := by
  intro as
  induction as with
  | nil =>
    intro n prev s s' hs h _
    simp only [correlatedHosts] at h; obtain ⟨rfl, _⟩ := pure_ok h; simp
  | cons a as ih =>
    intro n prev s s' hs h hp
    simp only [correlatedHosts] at h
    obtain ⟨⟨cfg, prev'⟩, s1, h1, h⟩ := bind_ok h
    obtain ⟨rest, s2, h2, h⟩ := bind_ok h
    obtain ⟨rfl, _⟩ := pure_ok h
    obtain ⟨hc, hp'⟩ := hostConfig_inv h1 hp
    intro x hx
    rcases List.mem_cons.mp hx with rfl | hx
    · exact mkHost_wf p sens a cfg hc
    · exact ih _ _ _ _ _ h2 hp' x hx

/-! ### uniform configurations: `_permutations(n)[:-1]` -/

theorem perms_length : ∀ (n : Nat), ∀ q ∈ perms n, q.length = n
  | 0 => by simp [perms]
  | 1 => by simp [perms]
  | n + 2 => by
    intro q hq
    simp only [perms, List.mem_flatMap] at hq
    obtain ⟨q0, hq0, hq⟩ := hq
    have := perms_length (n + 1) q0 hq0
    simp at hq
    rcases hq with rfl | rfl <;> simp [this]

/-- every configuration but the last contains a `true`; the last is all-`false` -/
theorem perms_split : ∀ (n : Nat), 0 < n →
    ∃ init, perms n = init ++ [List.replicate n false] ∧ ∀ q ∈ init, true ∈ q
  | 0 => by intro h; omega
  | 1 => by intro _; exact ⟨[[true]], by simp [perms], by simp⟩
  | n + 2 => by
    intro _
    obtain ⟨init, hsplit, hinit⟩ := perms_split (n + 1) (by omega)
    refine ⟨init.flatMap (fun q => [true :: q, false :: q]) ++ [true :: List.replicate (n + 1) false], ?_, ?_⟩
    · simp only [perms, hsplit, List.flatMap_append, List.flatMap_cons, List.flatMap_nil,
        List.append_nil, List.append_assoc, List.cons_append, List.nil_append,
        List.replicate_succ (n := n + 1)]
    · intro q hq
      rcases List.mem_append.mp hq with hq | hq
      · simp only [List.mem_flatMap] at hq
        obtain ⟨q0, hq0, hq⟩ := hq
        have := hinit q0 hq0
        simp at hq
        rcases hq with rfl | rfl <;> simp [this]
      · simp at hq; subst hq; simp

theorem perms_dropLast_ok (n : Nat) (hn : 0 < n) :
    ∀ q ∈ (perms n).dropLast, q.length = n ∧ true ∈ q := by
  obtain ⟨init, hsplit, hinit⟩ := perms_split n hn
  intro q hq
  rw [hsplit, List.dropLast_concat] at hq
  exact ⟨perms_length n q (by rw [hsplit]; exact List.mem_append_left _ hq), hinit q hq⟩

theorem uniformHosts_wf (p : Params) (sens : List (Addr × Int)) (hs1 : 0 < p.numServices)
    (hp1 : 0 < p.numProcesses) :
    ∀ (as : List Addr) (s s' : List Tok) (hs : List HostDef),
    uniformHosts p sens ((perms p.numServices).dropLast) ((perms p.numProcesses).dropLast) as s = .ok (hs, s') →
    ∀ h ∈ hs, HostWF p h := by
  intro as
  induction as with
  | nil => intro s s' hs h; simp only [uniformHosts] at h; obtain ⟨rfl, _⟩ := pure_ok h; simp
  | cons a as ih =>
    intro s s' hs h
    simp only [uniformHosts] at h
    obtain ⟨si, s1, h1, h⟩ := bind_ok h
    obtain ⟨pi, s2, h2, h⟩ := bind_ok h
    obtain ⟨os, s3, h3, h⟩ := bind_ok h
    obtain ⟨rest, s4, h4, h⟩ := bind_ok h
    obtain ⟨rfl, _⟩ := pure_ok h
    have l1 := choice1_ok h1
    have l2 := choice1_ok h2
    have l3 := choice1_ok h3
    intro x hx
    rcases List.mem_cons.mp hx with rfl | hx
    · apply mkHost_wf
      have e1 := perms_dropLast_ok p.numServices hs1 _ (List.getElem_mem l1)
      have e2 := perms_dropLast_ok p.numProcesses hp1 _ (List.getElem_mem l2)
      refine ⟨l3, ?_, ?_, ?_, ?_⟩ <;>
        simp only [List.getD_eq_getElem?_getD, List.getElem?_eq_getElem l1,
          List.getElem?_eq_getElem l2, Option.getD_some]
      · exact e1.1
      · exact e1.2
      · exact e2.1
      · exact e2.2
    · exact ih _ _ _ h4 x hx

/-! ### `_ensure_host_vulnerability` preserves the invariant -/

theorem setOs_wf (p : Params) (h : HostDef) (o : Option Nat) (hw : HostWF p h)
    (ho : ∀ x, o = some x → x < p.numOs) : HostWF p (setOs h o) := by
  cases o with
  | none => exact hw
  | some x =>
    obtain ⟨a, b, c, d, e, f⟩ := hw
    refine ⟨by simp [setOs, onehotB_length, a], b, c, ?_, e, f⟩
    simp [setOs, countTrue_onehotB, a, ho x rfl]

theorem updateVulnerable_wf (p : Params) (es : List ExploitDef) (ps : List PrivescDef) (lvl : Nat)
    (hes : ∀ e ∈ es, e.svc < p.numServices ∧ ∀ o, e.os = some o → o < p.numOs)
    (hps : ∀ e ∈ ps, ∀ pr, e.proc = some pr → pr < p.numProcesses) :
    ∀ (tries : Nat) (h h' : HostDef) (s s' : List Tok),
    updateVulnerable es ps lvl tries h s = .ok (h', s') → HostWF p h → HostWF p h' := by
  intro tries
  induction tries with
  | zero => intro h h' s s' hh; simp only [updateVulnerable] at hh; exact (fail_ok hh).elim
  | succ tries ih =>
    intro h h' s s' hh hw
    simp only [updateVulnerable] at hh
    obtain ⟨ei, s1, hei, hh⟩ := bind_ok hh
    have hlt := choice1_ok hei
    have hmem : es.getD ei default ∈ es := by
      rw [List.getD_eq_getElem?_getD, List.getElem?_eq_getElem hlt]; simp
    obtain ⟨hsvc, hos⟩ := hes _ hmem
    have hw1 : HostWF p (setOs { h with svc := h.svc.set (es.getD ei default).svc true } (es.getD ei default).os) := by
      apply setOs_wf _ _ _ _ hos
      obtain ⟨a, b, c, d, e, f⟩ := hw
      exact ⟨a, by simpa using b, c, d, mem_set_true _ _ e, f⟩
    split at hh
    · obtain ⟨rfl, _⟩ := pure_ok hh; exact hw1
    · split at hh
      · exact ih _ _ _ _ hh hw1
      · obtain ⟨pi, s2, hpi, hh⟩ := bind_ok hh
        obtain ⟨rfl, _⟩ := pure_ok hh
        obtain ⟨a, b, c, d, e, f⟩ := hw1
        refine ⟨a, b, ?_, d, e, ?_⟩
        · split
          · simpa using c
          · exact c
        · split
          · exact mem_set_true _ _ f
          · exact f

theorem ensurePass1_wf (p : Params) (es : List ExploitDef) (ps : List PrivescDef) (sens : List (Addr × Int))
    (retries : Nat)
    (hes : ∀ e ∈ es, e.svc < p.numServices ∧ ∀ o, e.os = some o → o < p.numOs)
    (hps : ∀ e ∈ ps, ∀ pr, e.proc = some pr → pr < p.numProcesses) :
    ∀ (hs : List HostDef) (vul : List Nat) (s s' : List Tok) (r : List HostDef × List Nat),
    ensurePass1 es ps sens retries hs vul s = .ok (r, s') → (∀ h ∈ hs, HostWF p h) → ∀ h ∈ r.1, HostWF p h := by
  intro hs
  induction hs with
  | nil => intro vul s s' r h _; simp only [ensurePass1] at h; obtain ⟨rfl, _⟩ := pure_ok h; simp
  | cons x xs ih =>
    intro vul s s' r h hw
    have hwx := hw x (List.mem_cons_self ..)
    have hwxs : ∀ h ∈ xs, HostWF p h := fun h hh => hw h (List.mem_cons_of_mem _ hh)
    simp only [ensurePass1] at h
    split at h
    · obtain ⟨⟨rest, vul'⟩, s1, h1, h⟩ := bind_ok h
      obtain ⟨rfl, _⟩ := pure_ok h
      intro y hy
      rcases List.mem_cons.mp hy with rfl | hy
      · exact hwx
      · exact ih _ _ _ _ h1 hwxs y hy
    · split at h
      · obtain ⟨x', s1, hx, h⟩ := bind_ok h
        obtain ⟨⟨rest, vul'⟩, s2, h1, h⟩ := bind_ok h
        obtain ⟨rfl, _⟩ := pure_ok h
        have hx' : HostWF p x' := by
          unfold fixSensitive at hx
          split at hx
          · exact updateVulnerable_wf p es ps 2 hes hps _ _ _ _ _ hx hwx
          · obtain ⟨rfl, _⟩ := pure_ok hx; exact hwx
        intro y hy
        rcases List.mem_cons.mp hy with rfl | hy
        · exact hx'
        · exact ih _ _ _ _ h1 hwxs y hy
      · obtain ⟨⟨rest, vul'⟩, s1, h1, h⟩ := bind_ok h
        obtain ⟨rfl, _⟩ := pure_ok h
        intro y hy
        rcases List.mem_cons.mp hy with rfl | hy
        · exact hwx
        · exact ih _ _ _ _ h1 hwxs y hy

theorem updateAt_wf (p : Params) (es : List ExploitDef) (ps : List PrivescDef) (retries : Nat) (a : Addr)
    (hes : ∀ e ∈ es, e.svc < p.numServices ∧ ∀ o, e.os = some o → o < p.numOs)
    (hps : ∀ e ∈ ps, ∀ pr, e.proc = some pr → pr < p.numProcesses) :
    ∀ (hs hs' : List HostDef) (s s' : List Tok),
    updateAt es ps retries a hs s = .ok (hs', s') → (∀ h ∈ hs, HostWF p h) → ∀ h ∈ hs', HostWF p h := by
  intro hs
  induction hs with
  | nil => intro hs' s s' h _; simp only [updateAt] at h; obtain ⟨rfl, _⟩ := pure_ok h; simp
  | cons x xs ih =>
    intro hs' s s' h hw
    have hwx := hw x (List.mem_cons_self ..)
    have hwxs : ∀ h ∈ xs, HostWF p h := fun h hh => hw h (List.mem_cons_of_mem _ hh)
    simp only [updateAt] at h
    split at h
    · obtain ⟨x', s1, hx, h⟩ := bind_ok h
      obtain ⟨rfl, _⟩ := pure_ok h
      intro y hy
      rcases List.mem_cons.mp hy with rfl | hy
      · exact updateVulnerable_wf p es ps 1 hes hps _ _ _ _ _ hx hwx
      · exact hwxs y hy
    · obtain ⟨rest, s1, h1, h⟩ := bind_ok h
      obtain ⟨rfl, _⟩ := pure_ok h
      intro y hy
      rcases List.mem_cons.mp hy with rfl | hy
      · exact hwx
      · exact ih _ _ _ h1 hwxs y hy

theorem ensurePass2_wf (p : Params) (es : List ExploitDef) (ps : List PrivescDef) (retries : Nat)
    (hes : ∀ e ∈ es, e.svc < p.numServices ∧ ∀ o, e.os = some o → o < p.numOs)
    (hps : ∀ e ∈ ps, ∀ pr, e.proc = some pr → pr < p.numProcesses) :
    ∀ (subs : List (Nat × Nat)) (vul : List Nat) (hs hs' : List HostDef) (s s' : List Tok),
    ensurePass2 es ps retries subs vul hs s = .ok (hs', s') → (∀ h ∈ hs, HostWF p h) →
    ∀ h ∈ hs', HostWF p h := by
  intro subs
  induction subs with
  | nil => intro vul hs hs' s s' h hw; simp only [ensurePass2] at h; obtain ⟨rfl, _⟩ := pure_ok h; exact hw
  | cons x xs ih =>
    intro vul hs hs' s s' h hw
    obtain ⟨size, subnet⟩ := x
    simp only [ensurePass2] at h
    split at h
    · exact ih _ _ _ _ _ h hw
    · obtain ⟨k, s1, _, h⟩ := bind_ok h
      obtain ⟨hs1, s2, h1, h⟩ := bind_ok h
      exact ih _ _ _ _ _ h (updateAt_wf p es ps retries _ hes hps _ _ _ _ h1 hw)

end NASim.Gen
