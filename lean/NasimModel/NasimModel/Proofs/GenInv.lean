import NasimModel.Model.GenPost
/-! Inversion lemmas for the generator monad and for the primitive draws. -/
namespace NASim.Gen

theorem bind_ok {α β} {x : G α} {f : α → G β} {s s'' : List Tok} {b : β}
    (h : (x >>= f) s = .ok (b, s'')) : ∃ a s', x s = .ok (a, s') ∧ f a s' = .ok (b, s'') := by
  simp only [bind] at h
  cases hx : x s with
  | error e => simp [hx] at h
  | ok p => obtain ⟨a, s'⟩ := p; simp only [hx] at h; exact ⟨a, s', rfl, h⟩

theorem pure_ok {α} {a b : α} {s s' : List Tok} (h : (pure a : G α) s = .ok (b, s')) : b = a ∧ s' = s := by
  simp only [pure] at h; injection h with h; injection h with h1 h2; exact ⟨h1.symm, h2.symm⟩

theorem fail_ok {α} {msg : String} {s s' : List Tok} {b : α} (h : (fail msg : G α) s = .ok (b, s')) : False := by
  simp [fail] at h

theorem choice1_ok {k : Nat} {s s' : List Tok} {i : Nat} (h : choice1 k s = .ok (i, s')) : i < k := by
  unfold choice1 at h
  obtain ⟨t, s1, _, h⟩ := bind_ok h
  cases t with
  | ch k' idx =>
    match idx with
    | [j] =>
      simp only at h
      split at h
      · rename_i hc; obtain ⟨rfl, _⟩ := pure_ok h; omega
      · exact (fail_ok h).elim
    | [] => exact (fail_ok h).elim
    | _ :: _ :: _ => exact (fail_ok h).elim
  | _ => exact (fail_ok h).elim

theorem choiceN_ok {k n : Nat} {s s' : List Tok} {idx : List Nat} (h : choiceN k n s = .ok (idx, s')) :
    idx.length = n ∧ ∀ i ∈ idx, i < k := by
  unfold choiceN at h
  obtain ⟨t, s1, _, h⟩ := bind_ok h
  cases t with
  | ch k' idx' =>
    simp only at h
    split at h
    · rename_i hc
      obtain ⟨rfl, _⟩ := pure_ok h
      refine ⟨hc.2.1, fun i hi => ?_⟩
      have := List.all_eq_true.mp hc.2.2 i hi
      simpa using this
    · exact (fail_ok h).elim
  | _ => exact (fail_ok h).elim

theorem randint_ok {lo hi : Int} {s s' : List Tok} {v : Int} (h : randint lo hi s = .ok (v, s')) :
    lo ≤ v ∧ v < hi := by
  unfold randint at h
  obtain ⟨t, s1, _, h⟩ := bind_ok h
  cases t with
  | ri lo' hi' v' =>
    simp only at h
    split at h
    · rename_i hc; obtain ⟨rfl, _⟩ := pure_ok h; exact ⟨hc.2.2.1, hc.2.2.2⟩
    · exact (fail_ok h).elim
  | _ => exact (fail_ok h).elim

theorem randomSample_ok {n : Nat} {s s' : List Tok} {v : List Rat} (h : randomSample n s = .ok (v, s')) :
    v.length = n ∧ ∀ q ∈ v, 0 ≤ q ∧ q < 1 := by
  unfold randomSample at h
  obtain ⟨t, s1, _, h⟩ := bind_ok h
  cases t with
  | rs vals =>
    simp only at h
    split at h
    · rename_i hc; obtain ⟨rfl, _⟩ := pure_ok h
      refine ⟨hc.1, fun q hq => ?_⟩
      have := List.all_eq_true.mp hc.2 q hq
      simpa using this
    · exact (fail_ok h).elim
  | _ => exact (fail_ok h).elim

end NASim.Gen
