import NasimModel.Model.Loader
/-! Inversion lemmas for the loader model: what an accepted document must satisfy. -/
namespace NASim.Load

theorem firstFail_none (l : List (Bool × Err)) : firstFail l = none ↔ ∀ p ∈ l, p.1 = true := by
  induction l with
  | nil => simp [firstFail]
  | cons p ps ih =>
    obtain ⟨b, e⟩ := p
    cases b <;> simp [firstFail, ih]

theorem need_ok {m : List (Y × Y)} {k : String} {v : Y} (h : need m k = .ok v) : getKey m k = some v := by
  unfold need at h; split at h <;> simp_all

theorem need_error {m : List (Y × Y)} {k : String} (h : getKey m k = none) :
    need m k = .error (.missing k) := by
  unfold need; simp [h]

theorem bind_ok {ε α β : Type} {x : Except ε α} {f : α → Except ε β} {r : β}
    (h : (x >>= f) = .ok r) : ∃ v, x = .ok v ∧ f v = .ok r := by
  cases x with
  | error e => simp [bind, Except.bind] at h
  | ok v => exact ⟨v, rfl, by simpa [bind, Except.bind] using h⟩

/-- everything an accepted document satisfies -/
structure Accepted (m : List (Y × Y)) (S : Sect) : Prop where
  sections : sectionsOk m = true
  getS : getSections m = .ok S
  subnets : subnetsOk (listOf S.subnets) = true
  topology : topologyOk (listOf S.topology) S.subnetsL.length = true
  os : namesOk (listOf S.os) = true
  services : namesOk (listOf S.services) = true
  processes : namesOk (listOf S.processes) = true
  sensitive : sensitiveOk S.subnetsL (mapOf S.sensitive) = true
  exploits : S.exploitsL.isSome = true
  privescs : S.privescsL.isSome = true
  scanCosts : (scanCostOk S.osCost && scanCostOk S.svcCost && scanCostOk S.subnetCost
      && scanCostOk S.procCost) = true
  hostConfigs : hostConfigsOk S.subnetsL (listOf S.os) (listOf S.services) (listOf S.processes)
      S.sensitiveL (mapOf S.hostConfigs) = true
  firewall : firewallOk S.topologyL (listOf S.services) (mapOf S.firewall) = true
  stepLimit : (stepLimitOf m).isSome = true

/-- inversion: a document is accepted iff it is a mapping that passes the section check, has the
fourteen sections and passes every validation; the result is then `build` -/
theorem load_ok_iff (doc : Y) (d : Loaded) :
    load doc = .ok d ↔ ∃ m S, doc = .map m ∧ Accepted m S ∧ d = build m S := by
  constructor
  · intro h
    unfold load at h
    split at h
    · rename_i m
      split at h
      · cases h
      · rename_i hs
        split at h
        · cases h
        · rename_i S hS
          split at h
          · cases h
          · rename_i hf
            have hall := (firstFail_none _).mp hf
            simp only [checks, List.mem_cons, List.not_mem_nil, or_false, forall_eq_or_imp,
              forall_eq] at hall
            obtain ⟨h1, h2, h3, h4, h5, h6, h7, h8, h9, h10, h11, h12⟩ := hall
            refine ⟨m, S, rfl, ⟨by simpa using hs, hS, h1, h2, h3, h4, h5, h6, h7, h8, h9, h10, h11, h12⟩, ?_⟩
            injection h with h; exact h.symm
    · cases h
  · rintro ⟨m, S, rfl, hA, rfl⟩
    unfold load
    have hf : firstFail (checks m S) = none := by
      rw [firstFail_none]
      simp only [checks, List.mem_cons, List.not_mem_nil, or_false, forall_eq_or_imp, forall_eq]
      exact ⟨hA.subnets, hA.topology, hA.os, hA.services, hA.processes, hA.sensitive, hA.exploits,
        hA.privescs, hA.scanCosts, hA.hostConfigs, hA.firewall, hA.stepLimit⟩
    simp [hA.sections, hA.getS, hf]

/-- the sections of an accepted document are the values stored under the section keys -/
theorem getSections_keys {m : List (Y × Y)} {S : Sect} (h : getSections m = .ok S) :
    getKey m "subnets" = some S.subnets ∧ getKey m "topology" = some S.topology ∧
    getKey m "os" = some S.os ∧ getKey m "services" = some S.services ∧
    getKey m "processes" = some S.processes ∧ getKey m "sensitive_hosts" = some S.sensitive ∧
    getKey m "exploits" = some S.exploits ∧ getKey m "privilege_escalation" = some S.privescs ∧
    getKey m "os_scan_cost" = some S.osCost ∧ getKey m "service_scan_cost" = some S.svcCost ∧
    getKey m "subnet_scan_cost" = some S.subnetCost ∧ getKey m "process_scan_cost" = some S.procCost ∧
    getKey m "host_configurations" = some S.hostConfigs ∧ getKey m "firewall" = some S.firewall := by
  unfold getSections at h
  obtain ⟨v1, h1, h⟩ := bind_ok h
  obtain ⟨v2, h2, h⟩ := bind_ok h
  obtain ⟨v3, h3, h⟩ := bind_ok h
  obtain ⟨v4, h4, h⟩ := bind_ok h
  obtain ⟨v5, h5, h⟩ := bind_ok h
  obtain ⟨v6, h6, h⟩ := bind_ok h
  obtain ⟨v7, h7, h⟩ := bind_ok h
  obtain ⟨v8, h8, h⟩ := bind_ok h
  obtain ⟨v9, h9, h⟩ := bind_ok h
  obtain ⟨v10, h10, h⟩ := bind_ok h
  obtain ⟨v11, h11, h⟩ := bind_ok h
  obtain ⟨v12, h12, h⟩ := bind_ok h
  obtain ⟨v13, h13, h⟩ := bind_ok h
  obtain ⟨v14, h14, h⟩ := bind_ok h
  simp only [pure, Except.pure] at h
  injection h with h; subst h
  exact ⟨need_ok h1, need_ok h2, need_ok h3, need_ok h4, need_ok h5, need_ok h6, need_ok h7, need_ok h8,
    need_ok h9, need_ok h10, need_ok h11, need_ok h12, need_ok h13, need_ok h14⟩

/-- a document is rejected as soon as it is a mapping with no accepting witness -/
theorem load_rejects_of (doc : Y) (h : ∀ m S, doc = .map m → ¬ Accepted m S) :
    ∃ e, load doc = .error e := by
  cases hl : load doc with
  | error e => exact ⟨e, rfl⟩
  | ok d =>
    obtain ⟨m, S, hm, hA, _⟩ := (load_ok_iff doc d).mp hl
    exact absurd hA (h m S hm)

end NASim.Load
