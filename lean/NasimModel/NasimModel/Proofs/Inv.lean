import NasimModel.Proofs.Step
namespace NASim

def WF (s : State) : Prop := (s.map (·.addr)).Nodup

theorem get_of_mem {s : State} (hwf : WF s) {r : Row} (hr : r ∈ s) : s.get r.addr = r := by
  unfold State.get
  induction s with
  | nil => cases hr
  | cons x xs ih =>
    simp only [WF, List.map_cons, List.nodup_cons] at hwf
    rcases List.mem_cons.mp hr with rfl | hr'
    · simp [List.find?_cons]
    · have hne : x.addr ≠ r.addr := by
        intro h; apply hwf.1; rw [h]; exact List.mem_map_of_mem hr'
      simp only [List.find?_cons]
      have : (x.addr == r.addr) = false := by simpa using hne
      simp only [this]
      exact ih hwf.2 hr'

theorem stepRow_addr (n s a u r) : (stepRow n s a u r).addr = r.addr := by
  have := stepRow_cfg n s a u r; simp [cfg] at this; exact this.1

theorem perform_wf (n s a u) (h : WF s) : WF (perform n s a u).1 := by
  unfold WF at *
  rw [perform_eq_map, List.map_map]
  have : ((fun x => x.addr) ∘ stepRow n s a u) = (fun x : Row => x.addr) := by
    funext r; simp [stepRow_addr]
  rw [this]; exact h

/-- C03 invariant -/
def Inv3 (n : Net) (s : State) : Prop :=
  ∀ r ∈ s, (r.reach = true ↔ (n.pub r.addr.1 = true ∨ ∃ c ∈ s, c.comp = true ∧ n.conn c.addr.1 r.addr.1 = true))
    ∧ (r.comp = true → r.disc = true) ∧ (r.disc = true → r.reach = true)

theorem mem_map_step {n s a u} {r' : Row} : r' ∈ s.map (stepRow n s a u) ↔ ∃ r ∈ s, stepRow n s a u r = r' := by
  simp [List.mem_map]

/-- every compromised row after the step was compromised before, or is the exploited target -/
theorem effRow_comp (n s a r) (h : (effRow n s a r).comp = true) :
    r.comp = true ∨ (a.kind = .exploit ∧ r.addr = a.target ∧ (hostPerform r a).2.success = true) := by
  unfold effRow at h
  split at h
  · split at h <;> simp_all
  · simp only [] at h
    by_cases ht : r.addr == a.target
    · simp only [ht, if_true] at h
      have : (hostRow a r).comp = true := by split at h <;> simpa using h
      rcases hostRow_comp a r this with h1 | ⟨h1, h2⟩
      · exact Or.inl h1
      · exact Or.inr ⟨h1, by simpa using ht, h2⟩
    · simp only [ht] at h
      left; split at h <;> simpa using h

theorem get_mem_of_reach {s : State} {t : Addr} (h : (s.get t).reach = true) : s.get t ∈ s ∧ (s.get t).addr = t := by
  unfold State.get at *
  cases hf : s.find? (fun r => r.addr == t) with
  | none => simp [hf] at h; exact absurd h (by decide)
  | some r =>
    simp only [Option.getD_some]
    exact ⟨List.mem_of_find?_eq_some hf, by simpa using List.find?_some hf⟩

theorem gate_pass_target {n s a} (h : gate n s a = .pass) : (s.get a.target).reach = true ∧ (s.get a.target).disc = true := by
  unfold gate at h
  repeat' split at h
  all_goals simp_all

/-- the exploited target: `hostPerform` is evaluated on the very row that is rewritten -/
theorem target_row {s : State} (hwf : WF s) {r : Row} (hr : r ∈ s) {t : Addr} (ht : r.addr = t) : s.get t = r := by
  subst ht; exact get_of_mem hwf hr

theorem inv3_effRow (n : Net) (s : State) (a : Action) (hwf : WF s) (hg : gate n s a = .pass) (h : Inv3 n s) :
    Inv3 n (s.map (effRow n s a)) := by
  obtain ⟨htreach, htdisc⟩ := gate_pass_target hg
  obtain ⟨hTmem, hTaddr⟩ := get_mem_of_reach htreach
  intro r' hr'
  obtain ⟨r, hr, rfl⟩ := List.mem_map.mp hr'
  obtain ⟨h1, h2, h3⟩ := h r hr
  by_cases hk : a.kind = .subnetScan
  · -- subnet scan: only `disc` may change
    have hrow : ∀ x, effRow n s a x = if (s.get a.target).comp && hasAccess (s.get a.target) a.req then discRow n a.target.1 x else x := by
      intro x; unfold effRow; simp [hk]
    have hcomp : ∀ x, (effRow n s a x).comp = x.comp := by intro x; rw [hrow]; split <;> simp
    have hreach : ∀ x, (effRow n s a x).reach = x.reach := by intro x; rw [hrow]; split <;> simp
    have haddr : ∀ x, (effRow n s a x).addr = x.addr := by intro x; rw [hrow]; split <;> simp
    refine ⟨?_, ?_, ?_⟩
    · rw [hreach, haddr, h1]
      constructor
      · rintro (hp | ⟨c, hc, hcc, hcn⟩)
        · exact Or.inl hp
        · exact Or.inr ⟨effRow n s a c, List.mem_map_of_mem hc, by rw [hcomp]; exact hcc, by rw [haddr]; exact hcn⟩
      · rintro (hp | ⟨c', hc', hcc, hcn⟩)
        · exact Or.inl hp
        · obtain ⟨c, hc, rfl⟩ := List.mem_map.mp hc'
          rw [hcomp] at hcc; rw [haddr] at hcn
          exact Or.inr ⟨c, hc, hcc, hcn⟩
    · rw [hcomp]; intro hc
      have := h2 hc
      rw [hrow]; split
      · rw [discRow_disc]; simp [this]
      · exact this
    · rw [hreach]; rw [hrow]; split
      · rename_i hok
        rw [discRow_disc]
        intro hd
        rcases Bool.or_eq_true _ _ |>.mp hd with hd | hd
        · exact h3 hd
        · -- newly discovered: connected to the compromised scanning host
          have hTc : (s.get a.target).comp = true := by
            revert hok; cases (s.get a.target).comp <;> simp
          exact h1.mpr (Or.inr ⟨s.get a.target, hTmem, hTc, by rw [hTaddr]; exact hd⟩)
      · exact h3
  · -- host-directed action
    have hrow : ∀ x, effRow n s a x =
        (if a.kind == .exploit && (hostPerform (s.get a.target) a).2.success
          then reachRow n a.target.1 (if x.addr == a.target then hostRow a x else x)
          else (if x.addr == a.target then hostRow a x else x)) := by
      intro x; unfold effRow; simp [hk]
    have haddr : ∀ x, (effRow n s a x).addr = x.addr := by
      intro x; rw [hrow]; split <;> split <;> simp
    have hdisc : ∀ x, (effRow n s a x).disc = x.disc := by
      intro x; rw [hrow]; split <;> split <;> simp
    by_cases hex : (a.kind == .exploit && (hostPerform (s.get a.target) a).2.success) = true
    · -- successful exploit
      have hkE : a.kind = .exploit := by revert hex; cases a.kind <;> simp
      have hsucc : (hostPerform (s.get a.target) a).2.success = true := by simp [hkE] at hex; exact hex
      have hreach : ∀ x, (effRow n s a x).reach = (x.reach || n.conn a.target.1 x.addr.1) := by
        intro x; rw [hrow]; simp only [hex, if_true]; rw [reachRow_reach]; split <;> simp
      have hcompT : (effRow n s a (s.get a.target)).comp = true := by
        rw [hrow]; simp only [hex, if_true, reachRow_comp, hTaddr, beq_self_eq_true]
        exact hostRow_comp_of_success a _ hkE hsucc
      have hcomp_mono : ∀ x, x.comp = true → (effRow n s a x).comp = true := by
        intro x hx; rw [hrow]; simp only [hex, if_true, reachRow_comp]
        split
        · have := hostRow_le a x
          unfold hostRow hostPerform; repeat' split
          all_goals simp_all
        · exact hx
      have hcomp_inv : ∀ x ∈ s, (effRow n s a x).comp = true → x.comp = true ∨ x = s.get a.target := by
        intro x hx hc
        rcases effRow_comp n s a x hc with h | ⟨_, hxa, _⟩
        · exact Or.inl h
        · exact Or.inr (target_row hwf hx hxa).symm
      refine ⟨?_, ?_, ?_⟩
      · rw [hreach, haddr]
        constructor
        · intro hh
          rcases Bool.or_eq_true _ _ |>.mp hh with hh | hh
          · rcases h1.mp hh with hp | ⟨c, hc, hcc, hcn⟩
            · exact Or.inl hp
            · exact Or.inr ⟨effRow n s a c, List.mem_map_of_mem hc, hcomp_mono c hcc, by rw [haddr]; exact hcn⟩
          · exact Or.inr ⟨effRow n s a (s.get a.target), List.mem_map_of_mem hTmem, hcompT, by rw [haddr, hTaddr]; exact hh⟩
        · rintro (hp | ⟨c', hc', hcc, hcn⟩)
          · rw [Bool.or_eq_true]; exact Or.inl (h1.mpr (Or.inl hp))
          · obtain ⟨c, hc, rfl⟩ := List.mem_map.mp hc'
            rw [haddr] at hcn
            rw [Bool.or_eq_true]
            rcases hcomp_inv c hc hcc with hc0 | rfl
            · exact Or.inl (h1.mpr (Or.inr ⟨c, hc, hc0, hcn⟩))
            · rw [hTaddr] at hcn; exact Or.inr hcn
      · rw [hdisc]; intro hc
        rcases hcomp_inv r hr hc with h0 | rfl
        · exact h2 h0
        · exact htdisc
      · rw [hdisc, hreach]; intro hd; rw [Bool.or_eq_true]; exact Or.inl (h3 hd)
    · -- no successful exploit: `comp`, `reach`, `disc` of every row unchanged
      have hex' : (a.kind == .exploit && (hostPerform (s.get a.target) a).2.success) = false := by simpa using hex
      have hreach : ∀ x, (effRow n s a x).reach = x.reach := by
        intro x; rw [hrow, if_neg hex]; split <;> simp
      have hcomp : ∀ x ∈ s, (effRow n s a x).comp = x.comp := by
        intro x hx; rw [hrow, if_neg hex]
        by_cases hxa : x.addr == a.target
        · simp only [hxa, if_true]
          have hxT : s.get a.target = x := target_row hwf hx (by simpa using hxa)
          rw [hxT] at hex'
          cases hxc : x.comp
          · cases hh : (hostRow a x).comp
            · simp
            · rcases hostRow_comp a x hh with h | ⟨hk1, hk2⟩
              · simp [hxc] at h
              · simp [hk1, hk2] at hex'
          · have := (hostRow_le_comp a x hxc); simp [this]
        · simp [hxa]
      refine ⟨?_, ?_, ?_⟩
      · rw [hreach, haddr, h1]
        constructor
        · rintro (hp | ⟨c, hc, hcc, hcn⟩)
          · exact Or.inl hp
          · exact Or.inr ⟨effRow n s a c, List.mem_map_of_mem hc, by rw [hcomp c hc]; exact hcc, by rw [haddr]; exact hcn⟩
        · rintro (hp | ⟨c', hc', hcc, hcn⟩)
          · exact Or.inl hp
          · obtain ⟨c, hc, rfl⟩ := List.mem_map.mp hc'
            rw [hcomp c hc] at hcc; rw [haddr] at hcn
            exact Or.inr ⟨c, hc, hcc, hcn⟩
      · rw [hcomp r hr, hdisc]; exact h2
      · rw [hdisc, hreach]; exact h3

theorem inv3_perform (n : Net) (s : State) (a : Action) (u : Rat) (hwf : WF s) (h : Inv3 n s) :
    Inv3 n (perform n s a u).1 := by
  rw [perform_eq_map]
  cases hg : gate n s a with
  | noop =>
    have : stepRow n s a u = id := by funext r; simp [stepRow, hg]
    simpa [this] using h
  | fail r =>
    have : stepRow n s a u = id := by funext r; simp [stepRow, hg]
    simpa [this] using h
  | pass =>
    by_cases hc : drawsNeeded s a = 1 ∧ u > a.prob
    · have : stepRow n s a u = id := by funext r; simp [stepRow, hg, hc]
      simpa [this] using h
    · have : stepRow n s a u = effRow n s a := by funext r; simp only [stepRow, hg, if_neg hc]
      rw [this]; exact inv3_effRow n s a hwf hg h

theorem inv3_reset (n : Net) (s : State) : Inv3 n (reset n s) := by
  intro r' hr'
  obtain ⟨r, _, rfl⟩ := List.mem_map.mp hr'
  refine ⟨?_, by simp, by simp⟩
  simp only
  constructor
  · intro h; exact Or.inl h
  · rintro (h | ⟨c', hc', hcc, _⟩)
    · exact h
    · obtain ⟨c, _, rfl⟩ := List.mem_map.mp hc'
      simp at hcc

theorem reset_wf (n : Net) (s : State) (h : WF s) : WF (reset n s) := by
  unfold WF reset at *; rw [List.map_map]; exact h

/-- states reachable from `s0` by any history of actions and draws -/
inductive Reach (n : Net) (s0 : State) : State → Prop
  | init : Reach n s0 s0
  | step {s} (a : Action) (u : Rat) : ActOk a → Reach n s0 s → Reach n s0 (perform n s a u).1

/-- C03 for every reachable state, histories of any length -/
theorem reach_inv3 (n : Net) (s0 s : State) (hwf : WF s0) (h0 : Inv3 n s0) (hr : Reach n s0 s) :
    WF s ∧ Inv3 n s := by
  induction hr with
  | init => exact ⟨hwf, h0⟩
  | step a u _ _ ih => exact ⟨perform_wf n _ a u ih.1, inv3_perform n _ a u ih.1 ih.2⟩

theorem reach_inv_wf (n : Net) (s0 s : State) (hwf : WF s0) (hr : Reach n s0 s) : WF s := by
  induction hr with
  | init => exact hwf
  | step a u _ _ ih => exact perform_wf n _ a u ih

theorem find_map {s : State} {f : Row → Row} (hf : ∀ r, (f r).addr = r.addr) (t : Addr) :
    (s.map f).find? (fun r => r.addr == t) = (s.find? (fun r => r.addr == t)).map f := by
  induction s with
  | nil => rfl
  | cons x xs ih =>
    simp only [List.map_cons, List.find?_cons, hf]
    split <;> simp_all

/-- reading a row of a mapped state, when the address is present -/
theorem get_map {s : State} {f : Row → Row} (hf : ∀ r, (f r).addr = r.addr) {t : Addr}
    (hmem : s.get t ∈ s ∧ (s.get t).addr = t) : State.get (s.map f) t = f (s.get t) := by
  unfold State.get at *
  rw [find_map hf]
  cases h : s.find? (fun r => r.addr == t) with
  | some r => simp
  | none =>
    exfalso
    rw [h] at hmem
    have := List.find?_eq_none.mp h _ hmem.1
    simp only [Option.getD_none] at hmem
    simp [hmem.2] at this

end NASim
