import NasimModel.Model.Core
/-! Step-level characterisation: the next state is a `map` of a per-row function. -/
namespace NASim

/-- per-row effect of a passed, chance-surviving action -/
def effRow (n : Net) (s : State) (a : Action) (r : Row) : Row :=
  if a.kind == .subnetScan then
    (if (s.get a.target).comp && hasAccess (s.get a.target) a.req then discRow n a.target.1 r else r)
  else
    let r1 := if r.addr == a.target then hostRow a r else r
    if a.kind == .exploit && (hostPerform (s.get a.target) a).2.success then reachRow n a.target.1 r1 else r1

theorem effect_eq_map (n : Net) (s : State) (a : Action) : (effect n s a).1 = s.map (effRow n s a) := by
  unfold effect effRow subnetScan
  split
  · -- subnet scan
    cases hc : (s.get a.target).comp <;> cases ha : hasAccess (s.get a.target) a.req <;> simp [hc, ha]
  · simp only []
    split <;> simp [List.map_map, Function.comp_def]

/-- per-row step function of `perform` -/
def stepRow (n : Net) (s : State) (a : Action) (u : Rat) (r : Row) : Row :=
  match gate n s a with
  | .pass => if drawsNeeded s a = 1 ∧ u > a.prob then r else effRow n s a r
  | _ => r

theorem perform_eq_map (n : Net) (s : State) (a : Action) (u : Rat) :
    (perform n s a u).1 = s.map (stepRow n s a u) := by
  unfold perform stepRow
  cases h : gate n s a with
  | noop => simp
  | fail r => simp
  | pass =>
    simp only []
    split
    · simp
    · simp [effect_eq_map]

/-! ### row-level facts -/

def cfg (r : Row) := (r.addr, r.value, r.dvalue, r.os, r.svc, r.proc)

@[simp] theorem discRow_cfg (n c r) : cfg (discRow n c r) = cfg r := by unfold discRow; split <;> rfl
@[simp] theorem reachRow_cfg (n c r) : cfg (reachRow n c r) = cfg r := by unfold reachRow; split <;> rfl
@[simp] theorem hostRow_cfg (a r) : cfg (hostRow a r) = cfg r := by
  unfold hostRow hostPerform; repeat' split
  all_goals rfl

@[simp] theorem reachRow_comp (n c r) : (reachRow n c r).comp = r.comp := by unfold reachRow; split <;> rfl
@[simp] theorem reachRow_disc (n c r) : (reachRow n c r).disc = r.disc := by unfold reachRow; split <;> rfl
@[simp] theorem reachRow_access (n c r) : (reachRow n c r).access = r.access := by unfold reachRow; split <;> rfl
@[simp] theorem reachRow_addr (n c r) : (reachRow n c r).addr = r.addr := by unfold reachRow; split <;> rfl
theorem reachRow_reach (n c r) : (reachRow n c r).reach = (r.reach || n.conn c r.addr.1) := by
  unfold reachRow; cases h : r.reach <;> cases h2 : n.conn c r.addr.1 <;> simp [h]
@[simp] theorem discRow_comp (n c r) : (discRow n c r).comp = r.comp := by unfold discRow; split <;> rfl
@[simp] theorem discRow_reach (n c r) : (discRow n c r).reach = r.reach := by unfold discRow; split <;> rfl
@[simp] theorem discRow_access (n c r) : (discRow n c r).access = r.access := by unfold discRow; split <;> rfl
@[simp] theorem discRow_addr (n c r) : (discRow n c r).addr = r.addr := by unfold discRow; split <;> rfl
theorem discRow_disc (n c r) : (discRow n c r).disc = (r.disc || n.conn c r.addr.1) := by
  unfold discRow; cases h : r.disc <;> cases h2 : n.conn c r.addr.1 <;> simp [h]
@[simp] theorem hostRow_reach (a r) : (hostRow a r).reach = r.reach := by
  unfold hostRow hostPerform; repeat' split
  all_goals rfl
@[simp] theorem hostRow_disc (a r) : (hostRow a r).disc = r.disc := by
  unfold hostRow hostPerform; repeat' split
  all_goals rfl
@[simp] theorem hostRow_addr (a r) : (hostRow a r).addr = r.addr := by
  unfold hostRow hostPerform; repeat' split
  all_goals rfl
/-- a row becomes compromised by `hostRow` only through a successful exploit -/
theorem hostRow_comp (a r) (h : (hostRow a r).comp = true) :
    r.comp = true ∨ (a.kind = .exploit ∧ (hostPerform r a).2.success = true) := by
  revert h; unfold hostRow hostPerform; repeat' split
  all_goals simp_all
theorem hostRow_comp_of_success (a r) (hk : a.kind = .exploit) (h : (hostPerform r a).2.success = true) :
    (hostRow a r).comp = true := by
  revert h; unfold hostRow hostPerform; simp [hk]; repeat' split
  all_goals simp_all

theorem hostRow_le_comp (a r) (h : r.comp = true) : (hostRow a r).comp = true := by
  unfold hostRow hostPerform; repeat' split
  all_goals simp_all

theorem effRow_cfg (n s a r) : cfg (effRow n s a r) = cfg r := by
  unfold effRow
  repeat' split
  all_goals simp

theorem stepRow_cfg (n s a u r) : cfg (stepRow n s a u r) = cfg r := by
  unfold stepRow
  repeat' split
  all_goals simp [effRow_cfg]

/-- C04 (configuration part): no step alters address, value, discovery value, OS, services, processes of any row -/
theorem perform_cfg (n : Net) (s : State) (a : Action) (u : Rat) :
    (perform n s a u).1.map cfg = s.map cfg := by
  rw [perform_eq_map, List.map_map]
  apply List.map_congr_left
  intro r _
  exact stepRow_cfg n s a u r

/-- row order: flags only rise, access only rises -/
def RowLe (r r' : Row) : Prop :=
  (r.comp = true → r'.comp = true) ∧ (r.reach = true → r'.reach = true) ∧ (r.disc = true → r'.disc = true) ∧ r.access ≤ r'.access

theorem discRow_le (n c r) : RowLe r (discRow n c r) := by
  unfold discRow RowLe; split <;> simp_all
theorem reachRow_le (n c r) : RowLe r (reachRow n c r) := by
  unfold reachRow RowLe; split <;> simp_all
theorem RowLe.refl (r) : RowLe r r := by simp [RowLe]
theorem RowLe.trans {a b c : Row} (h1 : RowLe a b) (h2 : RowLe b c) : RowLe a c := by
  unfold RowLe at *; refine ⟨fun h => h2.1 (h1.1 h), fun h => h2.2.1 (h1.2.1 h), fun h => h2.2.2.1 (h1.2.2.1 h), ?_⟩; omega

/-- the access level an exploit / escalation grants is USER or ROOT (what the loader and the
generator guarantee for every action of the action space; scans and the no-op grant nothing) -/
def ActOk (a : Action) : Prop :=
  (a.kind = .exploit ∨ a.kind = .privesc) → 1 ≤ a.grant ∧ a.grant ≤ 2

theorem hostRow_le (a : Action) (r : Row) (hg : ActOk a) (hr : r.access ≤ 2) : RowLe r (hostRow a r) := by
  unfold ActOk at hg
  unfold hostRow hostPerform RowLe raiseAccess
  repeat' split
  all_goals simp_all
  all_goals omega

theorem effRow_le (n s a r) (hg : ActOk a) (hr : r.access ≤ 2) : RowLe r (effRow n s a r) := by
  unfold effRow
  split
  · split
    · exact discRow_le _ _ _
    · exact RowLe.refl r
  · simp only []
    have h1 : RowLe r (if r.addr == a.target then hostRow a r else r) := by
      split
      · exact hostRow_le a r hg hr
      · exact RowLe.refl r
    split
    · exact RowLe.trans h1 (reachRow_le _ _ _)
    · exact h1

/-- C04 (monotone part), one step, every row -/
theorem stepRow_le (n s a u r) (hg : ActOk a) (hr : r.access ≤ 2) : RowLe r (stepRow n s a u r) := by
  unfold stepRow
  split
  · split
    · exact RowLe.refl r
    · exact effRow_le n s a r hg hr
  · exact RowLe.refl r

end NASim
