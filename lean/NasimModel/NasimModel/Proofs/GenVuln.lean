import NasimModel.Props.C15
import NasimModel.Proofs.GenMeta
/-!
# `_ensure_host_vulnerability`: what the two passes establish

* every sensitive host ends ROOT-vulnerable (`hostVulnerable es ps h 2`),
* every network subnet ends with a host that some exploit applies to (`VulnH`),

for every stream on which the passes succeed.  Used by C15 (cross-zone rules allow at least one
service) and C16 (the three structural clauses of solvability).
-/
namespace NASim.Gen

/-- some exploit applies to the host -/
def VulnH (es : List ExploitDef) (h : HostDef) : Prop := ∃ e ∈ es, vulnE h e = true

/-- subnet `x` has a host some exploit applies to -/
def Wit (es : List ExploitDef) (hosts : List HostDef) (x : Nat) : Prop :=
  ∃ h ∈ hosts, h.addr.1 = x ∧ VulnH es h

theorem vulnH_of_hostVulnerable {es : List ExploitDef} {ps : List PrivescDef} {h : HostDef} {lvl : Nat}
    (hv : hostVulnerable es ps h lvl = true) : VulnH es h := by
  unfold hostVulnerable at hv
  rw [List.any_eq_true] at hv
  obtain ⟨e, he, hv⟩ := hv
  simp only [Bool.and_eq_true] at hv
  exact ⟨e, he, hv.1⟩

theorem onehotB_getD_self (n o : Nat) (h : o < n) : (onehotB n o).getD o false = true := by
  simp [onehotB, List.getD_eq_getElem?_getD, h]

theorem runsOsH_setOs (h : HostDef) (o : Option Nat) (ho : ∀ x, o = some x → x < h.os.length) :
    runsOsH (setOs h o) o = true := by
  cases o with
  | none => rfl
  | some x => simp only [setOs, runsOsH]; exact onehotB_getD_self _ _ (ho x rfl)

theorem setOs_svc (h : HostDef) (o : Option Nat) : (setOs h o).svc = h.svc := by cases o <;> rfl
theorem setOs_proc (h : HostDef) (o : Option Nat) : (setOs h o).proc = h.proc := by cases o <;> rfl

/-- `_update_host_to_vulnerable` returns a host that is vulnerable at the requested level -/
theorem updateVulnerable_vuln (p : Params) (es : List ExploitDef) (ps : List PrivescDef) (lvl : Nat)
    (hes : ∀ e ∈ es, e.svc < p.numServices ∧ ∀ o, e.os = some o → o < p.numOs)
    (hps : ∀ e ∈ ps, ∀ pr, e.proc = some pr → pr < p.numProcesses) :
    ∀ (tries : Nat) (h h' : HostDef) (s s' : List Tok),
    updateVulnerable es ps lvl tries h s = .ok (h', s') → HostWF p h →
    hostVulnerable es ps h' lvl = true := by
  intro tries
  induction tries with
  | zero => intro h h' s s' hh; simp only [updateVulnerable] at hh; exact (fail_ok hh).elim
  | succ tries ih =>
    intro h h' s s' hh hw
    simp only [updateVulnerable] at hh
    obtain ⟨ei, s1, hei, hh⟩ := bind_ok hh
    have hlt := choice1_ok hei
    have hmem : es.getD ei default ∈ es := by
      rw [List.getD_eq_getElem?_getD, List.getElem?_eq_getElem hlt]; simp
    obtain ⟨hsvc, hos⟩ := hes _ hmem
    generalize es.getD ei default = e at hh hmem hsvc hos
    have hw1 : HostWF p (setOs { h with svc := h.svc.set e.svc true } e.os) := by
      apply setOs_wf _ _ _ _ hos
      obtain ⟨a, b, c, d, e', f⟩ := hw
      exact ⟨a, by simpa using b, c, d, mem_set_true _ _ e', f⟩
    have hv1 : vulnE (setOs { h with svc := h.svc.set e.svc true } e.os) e = true := by
      unfold vulnE
      rw [setOs_svc, Bool.and_eq_true]
      refine ⟨?_, runsOsH_setOs _ _ ?_⟩
      · have : e.svc < h.svc.length := by rw [hw.2.1]; exact hsvc
        simp [List.getD_eq_getElem?_getD, this]
      · intro x hx; have := hos x hx; rw [← hw.1] at this; exact this
    split at hh
    · rename_i hle
      obtain ⟨rfl, _⟩ := pure_ok hh
      unfold hostVulnerable
      rw [List.any_eq_true]
      exact ⟨e, hmem, by simp [hv1, hle]⟩
    · split at hh
      · exact ih _ _ _ _ hh hw1
      · obtain ⟨pi, s2, hpi, hh⟩ := bind_ok hh
        obtain ⟨rfl, _⟩ := pure_ok hh
        have hlt2 := choice1_ok hpi
        generalize hh1 : setOs { h with svc := h.svc.set e.svc true } e.os = h1 at *
        have hmem2 : (List.filter (fun pe => runsOsH h1 pe.os) ps).getD pi default ∈
            List.filter (fun pe => runsOsH h1 pe.os) ps := by
          rw [List.getD_eq_getElem?_getD, List.getElem?_eq_getElem hlt2]; simp
        generalize (List.filter (fun pe => runsOsH h1 pe.os) ps).getD pi default = pe at hmem2 ⊢
        obtain ⟨hpe, hrun⟩ := List.mem_filter.mp hmem2
        unfold hostVulnerable
        rw [List.any_eq_true]
        refine ⟨e, hmem, ?_⟩
        rw [Bool.and_eq_true]
        constructor
        · -- the exploit still applies: only `proc` changed
          unfold vulnE at hv1 ⊢
          cases hp : pe.proc <;> simpa [runsOsH] using hv1
        · rw [Bool.or_eq_true]; right
          rw [List.any_eq_true]
          refine ⟨pe, hpe, ?_⟩
          unfold vulnPE
          cases hp : pe.proc with
          | none => simpa [runsOsH] using hrun
          | some pr =>
            have : pr < h1.proc.length := by rw [hw1.2.2.1]; exact hps pe hpe pr hp
            simp only [Bool.and_eq_true]
            refine ⟨by simp [List.getD_eq_getElem?_getD, this], ?_⟩
            cases ho : pe.os with
            | none => rfl
            | some o => rw [ho] at hrun; simpa [runsOsH] using hrun

/-- `fixSensitive` returns a ROOT-vulnerable host -/
theorem fixSensitive_vuln (p : Params) (es : List ExploitDef) (ps : List PrivescDef) (retries : Nat)
    (hes : ∀ e ∈ es, e.svc < p.numServices ∧ ∀ o, e.os = some o → o < p.numOs)
    (hps : ∀ e ∈ ps, ∀ pr, e.proc = some pr → pr < p.numProcesses)
    {h h' : HostDef} {s s' : List Tok} (hx : fixSensitive es ps retries h s = .ok (h', s')) (hw : HostWF p h) :
    hostVulnerable es ps h' 2 = true ∧ h'.addr = h.addr := by
  unfold fixSensitive at hx
  split at hx
  · exact ⟨updateVulnerable_vuln p es ps 2 hes hps _ _ _ _ _ hx hw, updateVulnerable_addr _ _ _ _ _ _ _ _ hx⟩
  · rename_i hc
    obtain ⟨rfl, _⟩ := pure_ok hx
    exact ⟨by simpa using hc, rfl⟩

/-- invariant of the two passes: recorded subnets have a witness; sensitive hosts are
ROOT-vulnerable and their subnet is recorded -/
def PInv (es : List ExploitDef) (ps : List PrivescDef) (sens : List (Addr × Int)) (vul : List Nat)
    (hosts : List HostDef) : Prop :=
  (∀ x ∈ vul, Wit es hosts x) ∧
  (∀ h ∈ hosts, (sens.lookup h.addr).isSome = true → hostVulnerable es ps h 2 = true ∧ h.addr.1 ∈ vul)

theorem Wit.cons {es : List ExploitDef} {hosts : List HostDef} {x : Nat} (h0 : HostDef)
    (w : Wit es hosts x) : Wit es (h0 :: hosts) x := by
  obtain ⟨h, hm, a, b⟩ := w
  exact ⟨h, List.mem_cons_of_mem _ hm, a, b⟩

/-- first pass -/
theorem ensurePass1_vuln (p : Params) (es : List ExploitDef) (ps : List PrivescDef) (sens : List (Addr × Int))
    (retries : Nat)
    (hes : ∀ e ∈ es, e.svc < p.numServices ∧ ∀ o, e.os = some o → o < p.numOs)
    (hps : ∀ e ∈ ps, ∀ pr, e.proc = some pr → pr < p.numProcesses) :
    ∀ (hs : List HostDef) (vul : List Nat) (s s' : List Tok) (r : List HostDef × List Nat),
    ensurePass1 es ps sens retries hs vul s = .ok (r, s') → (∀ h ∈ hs, HostWF p h) →
    (∀ x ∈ vul, x ∈ r.2) ∧ (∀ x ∈ r.2, x ∈ vul ∨ Wit es r.1 x) ∧
    (∀ h ∈ r.1, (sens.lookup h.addr).isSome = true → hostVulnerable es ps h 2 = true ∧ h.addr.1 ∈ r.2) := by
  intro hs
  induction hs with
  | nil =>
    intro vul s s' r h _; simp only [ensurePass1] at h; obtain ⟨rfl, _⟩ := pure_ok h
    exact ⟨fun x hx => hx, fun x hx => Or.inl hx, by simp⟩
  | cons x xs ih =>
    intro vul s s' r h hw
    have hwx := hw x (List.mem_cons_self ..)
    have hwxs : ∀ h ∈ xs, HostWF p h := fun h hh => hw h (List.mem_cons_of_mem _ hh)
    simp only [ensurePass1] at h
    split at h
    · rename_i hc
      obtain ⟨⟨rest, vul'⟩, s1, h1, h⟩ := bind_ok h
      obtain ⟨rfl, _⟩ := pure_ok h
      obtain ⟨i1, i2, i3⟩ := ih _ _ _ _ h1 hwxs
      refine ⟨i1, ?_, ?_⟩
      · intro y hy; rcases i2 y hy with hh | hh
        · exact Or.inl hh
        · exact Or.inr (hh.cons x)
      · intro y hy hs
        rcases List.mem_cons.mp hy with rfl | hy
        · simp only [Bool.and_eq_true, Bool.not_eq_true'] at hc
          rw [hc.1] at hs; cases hs
        · exact i3 y hy hs
    · split at h
      · obtain ⟨x', s1, hx, h⟩ := bind_ok h
        obtain ⟨⟨rest, vul'⟩, s2, h1, h⟩ := bind_ok h
        obtain ⟨rfl, _⟩ := pure_ok h
        obtain ⟨v2, ha⟩ := fixSensitive_vuln p es ps retries hes hps hx hwx
        obtain ⟨i1, i2, i3⟩ := ih _ _ _ _ h1 hwxs
        have hin : x.addr.1 ∈ vul' := i1 _ (by simp)
        refine ⟨fun y hy => i1 y (List.mem_append_left _ hy), ?_, ?_⟩
        · intro y hy; rcases i2 y hy with hh | hh
          · rcases List.mem_append.mp hh with hh | hh
            · exact Or.inl hh
            · simp at hh; subst hh
              exact Or.inr ⟨x', List.mem_cons_self .., by rw [ha], vulnH_of_hostVulnerable v2⟩
          · exact Or.inr (hh.cons x')
        · intro y hy hs
          rcases List.mem_cons.mp hy with rfl | hy
          · exact ⟨v2, by rw [ha]; exact hin⟩
          · exact i3 y hy hs
      · rename_i hc1 hc2
        obtain ⟨⟨rest, vul'⟩, s1, h1, h⟩ := bind_ok h
        obtain ⟨rfl, _⟩ := pure_ok h
        obtain ⟨i1, i2, i3⟩ := ih _ _ _ _ h1 hwxs
        refine ⟨?_, ?_, ?_⟩
        · intro y hy; apply i1; split
          · exact List.mem_append_left _ hy
          · exact hy
        · intro y hy; rcases i2 y hy with hh | hh
          · split at hh
            · rename_i hv
              rcases List.mem_append.mp hh with hh | hh
              · exact Or.inl hh
              · simp at hh; subst hh
                exact Or.inr ⟨x, List.mem_cons_self .., rfl, vulnH_of_hostVulnerable hv⟩
            · exact Or.inl hh
          · exact Or.inr (hh.cons x)
        · intro y hy hs
          rcases List.mem_cons.mp hy with rfl | hy
          · simp only [Bool.not_eq_true] at hc2; rw [hc2] at hs; cases hs
          · exact i3 y hy hs

/-- `updateAt`: the host at `a` (if any) is replaced by a vulnerable one; the others stay -/
theorem updateAt_spec (p : Params) (es : List ExploitDef) (ps : List PrivescDef) (retries : Nat) (a : Addr)
    (hes : ∀ e ∈ es, e.svc < p.numServices ∧ ∀ o, e.os = some o → o < p.numOs)
    (hps : ∀ e ∈ ps, ∀ pr, e.proc = some pr → pr < p.numProcesses) :
    ∀ (hs hs' : List HostDef) (s s' : List Tok),
    updateAt es ps retries a hs s = .ok (hs', s') → (∀ h ∈ hs, HostWF p h) →
    (∀ h' ∈ hs', h' ∈ hs ∨ (h'.addr = a ∧ ∃ h ∈ hs, h.addr = a)) ∧
    (a ∈ hs.map (·.addr) → ∃ h' ∈ hs', h'.addr = a ∧ hostVulnerable es ps h' 1 = true) ∧
    (∀ h ∈ hs, h.addr ≠ a → h ∈ hs') := by
  intro hs
  induction hs with
  | nil => intro hs' s s' h _; simp only [updateAt] at h; obtain ⟨rfl, _⟩ := pure_ok h; simp
  | cons x xs ih =>
    intro hs' s s' h hw
    have hwx := hw x (List.mem_cons_self ..)
    have hwxs : ∀ h ∈ xs, HostWF p h := fun h hh => hw h (List.mem_cons_of_mem _ hh)
    simp only [updateAt] at h
    split at h
    · rename_i hc
      have hxa : x.addr = a := by simpa using hc
      obtain ⟨x', s1, hx, h⟩ := bind_ok h
      obtain ⟨rfl, _⟩ := pure_ok h
      have ha := updateVulnerable_addr _ _ _ _ _ _ _ _ hx
      have hv := updateVulnerable_vuln p es ps 1 hes hps _ _ _ _ _ hx hwx
      refine ⟨?_, ?_, ?_⟩
      · intro y hy
        rcases List.mem_cons.mp hy with rfl | hy
        · exact Or.inr ⟨by rw [ha, hxa], x, List.mem_cons_self .., hxa⟩
        · exact Or.inl (List.mem_cons_of_mem _ hy)
      · intro _; exact ⟨x', List.mem_cons_self .., by rw [ha, hxa], hv⟩
      · intro y hy hne
        rcases List.mem_cons.mp hy with rfl | hy
        · exact absurd hxa hne
        · exact List.mem_cons_of_mem _ hy
    · rename_i hc
      have hxa : x.addr ≠ a := by simpa using hc
      obtain ⟨rest, s1, h1, h⟩ := bind_ok h
      obtain ⟨rfl, _⟩ := pure_ok h
      obtain ⟨i1, i2, i3⟩ := ih _ _ _ h1 hwxs
      refine ⟨?_, ?_, ?_⟩
      · intro y hy
        rcases List.mem_cons.mp hy with rfl | hy
        · exact Or.inl (List.mem_cons_self ..)
        · rcases i1 y hy with hh | ⟨hh, z, hz, hza⟩
          · exact Or.inl (List.mem_cons_of_mem _ hh)
          · exact Or.inr ⟨hh, z, List.mem_cons_of_mem _ hz, hza⟩
      · intro hm
        simp only [List.map_cons, List.mem_cons] at hm
        rcases hm with hm | hm
        · exact absurd hm.symm hxa
        · obtain ⟨y, hy, q⟩ := i2 hm
          exact ⟨y, List.mem_cons_of_mem _ hy, q⟩
      · intro y hy hne
        rcases List.mem_cons.mp hy with rfl | hy
        · exact List.mem_cons_self ..
        · exact List.mem_cons_of_mem _ (i3 y hy hne)

/-- second pass: every listed network subnet ends up recorded, the invariant is kept -/
theorem ensurePass2_vuln (p : Params) (es : List ExploitDef) (ps : List PrivescDef) (sens : List (Addr × Int))
    (retries : Nat)
    (hes : ∀ e ∈ es, e.svc < p.numServices ∧ ∀ o, e.os = some o → o < p.numOs)
    (hps : ∀ e ∈ ps, ∀ pr, e.proc = some pr → pr < p.numProcesses) :
    ∀ (subs : List (Nat × Nat)) (vul : List Nat) (hs hs' : List HostDef) (s s' : List Tok),
    ensurePass2 es ps retries subs vul hs s = .ok (hs', s') → (∀ h ∈ hs, HostWF p h) →
    PInv es ps sens vul hs →
    (∀ sz sb, (sz, sb) ∈ subs → sb ≠ 0 → ∀ k, k < sz → (sb, k) ∈ hs.map (·.addr)) →
    ∃ vul', PInv es ps sens vul' hs' ∧ (∀ x ∈ vul, x ∈ vul') ∧
      ∀ sz sb, (sz, sb) ∈ subs → sb = 0 ∨ sb ∈ vul' := by
  intro subs
  induction subs with
  | nil =>
    intro vul hs hs' s s' h _ hinv _; simp only [ensurePass2] at h; obtain ⟨rfl, _⟩ := pure_ok h
    exact ⟨vul, hinv, fun x hx => hx, by simp⟩
  | cons x xs ih =>
    intro vul hs hs' s s' h hw hinv hcov
    obtain ⟨size, subnet⟩ := x
    have hcov' : ∀ sz sb, (sz, sb) ∈ xs → sb ≠ 0 → ∀ k, k < sz → (sb, k) ∈ hs.map (·.addr) :=
      fun sz sb hm => hcov sz sb (List.mem_cons_of_mem _ hm)
    simp only [ensurePass2] at h
    split at h
    · rename_i hc
      obtain ⟨vul', a, b, c⟩ := ih _ _ _ _ _ h hw hinv hcov'
      refine ⟨vul', a, b, ?_⟩
      intro sz sb hm
      rcases List.mem_cons.mp hm with heq | hm
      · injection heq with _ h2; subst h2
        simp only [Bool.or_eq_true, List.contains_iff_mem, beq_iff_eq] at hc
        rcases hc with hc | hc
        · exact Or.inr (b _ hc)
        · exact Or.inl hc
      · exact c sz sb hm
    · rename_i hc
      simp only [Bool.or_eq_true, List.contains_iff_mem, beq_iff_eq, not_or] at hc
      obtain ⟨k, s1, hk, h⟩ := bind_ok h
      obtain ⟨hs1, s2, h1, h⟩ := bind_ok h
      obtain ⟨klo, khi⟩ := randint_ok hk
      have hkt : k.toNat < size := by omega
      obtain ⟨u1, u2, u3⟩ := updateAt_spec p es ps retries (subnet, k.toNat) hes hps _ _ _ _ h1 hw
      have hw1 := updateAt_wf p es ps retries _ hes hps _ _ _ _ h1 hw
      have hmem := hcov size subnet (List.mem_cons_self ..) hc.2 _ hkt
      obtain ⟨hnew, hn1, hn2, hn3⟩ := u2 hmem
      have hinv1 : PInv es ps sens (vul ++ [subnet]) hs1 := by
        constructor
        · intro y hy
          rcases List.mem_append.mp hy with hy | hy
          · obtain ⟨w, wm, wa, wv⟩ := hinv.1 y hy
            refine ⟨w, u3 w wm ?_, wa, wv⟩
            intro heq; rw [heq] at wa; simp only at wa; subst wa; exact hc.1 hy
          · simp at hy; subst hy
            exact ⟨hnew, hn1, by rw [hn2], vulnH_of_hostVulnerable hn3⟩
        · intro y hy hsens
          rcases u1 y hy with hh | ⟨hh, z, hz, hza⟩
          · obtain ⟨q1, q2⟩ := hinv.2 y hh hsens
            exact ⟨q1, List.mem_append_left _ q2⟩
          · -- the replaced host was not sensitive: its subnet was not recorded
            have := (hinv.2 z hz (by rw [hza, ← hh]; exact hsens)).2
            rw [hza] at this; exact absurd this hc.1
      have hcov1 : ∀ sz sb, (sz, sb) ∈ xs → sb ≠ 0 → ∀ k, k < sz → (sb, k) ∈ hs1.map (·.addr) := by
        rw [updateAt_addrs _ _ _ _ _ _ _ _ h1]; exact hcov'
      obtain ⟨vul', a, b, c⟩ := ih _ _ _ _ _ h hw1 hinv1 hcov1
      refine ⟨vul', a, fun y hy => b y (List.mem_append_left _ hy), ?_⟩
      intro sz sb hm
      rcases List.mem_cons.mp hm with heq | hm
      · injection heq with _ h2; subst h2
        exact Or.inr (b _ (by simp))
      · exact c sz sb hm

end NASim.Gen
