import NasimModel.Model.Gen
import NasimModel.Props.C02
import NasimModel.Props.C04
import NasimModel.Proofs.ReachFlat
/-!
# Solvability from structure

A scenario whose subnets can be entered one after the other (`Structure`: a parent subnet for each
network subnet, connected to it, whose firewall rule admits a service some host of the subnet is
vulnerable through), whose sensitive hosts are ROOT-vulnerable and whose hosts carry no host
firewall, has an action history from the initial state to a goal state with every draw 0.

The history is built, not searched: subnet scan from a controlled host, exploit of the entry
witness, and on the sensitive host exploit (+ escalation when the exploit grants USER only).
-/
namespace NASim
open NASim.Gen (vulnE vulnPE hostVulnerable runsOsH)

/-! ### histories over the flat action space, from any state -/

inductive ReachFrom (sc : Scenario) (s0 : State) : State → Prop
  | init : ReachFrom sc s0 s0
  | step {s} (i : Nat) (u : Rat) : ReachFrom sc s0 s →
      ReachFrom sc s0 (perform sc.net s ((flatActions sc).getD i noopAction) u).1

theorem ReachFrom.trans {sc : Scenario} {a b c : State} (h1 : ReachFrom sc a b) (h2 : ReachFrom sc b c) :
    ReachFrom sc a c := by
  induction h2 with
  | init => exact h1
  | step i u _ ih => exact ReachFrom.step i u ih

theorem reachFlat_of_from {sc : Scenario} {s : State} (h : ReachFrom sc sc.init s) : ReachFlat sc s := by
  induction h with
  | init => exact ReachFlat.init
  | step i u _ ih => exact ReachFlat.step i u ih

theorem ReachFrom.one {sc : Scenario} (s : State) {a : Action} (ha : a ∈ flatActions sc) (u : Rat) :
    ReachFrom sc s (perform sc.net s a u).1 := by
  obtain ⟨i, hi, rfl⟩ := List.mem_iff_getElem.mp ha
  have : (flatActions sc).getD i noopAction = (flatActions sc)[i] := by
    rw [List.getD_eq_getElem?_getD, List.getElem?_eq_getElem hi]; rfl
  rw [← this]
  exact ReachFrom.step i u ReachFrom.init

/-! ### the actions of the flat space -/

theorem scan_mem (sc : Scenario) {t : Addr} (ht : t ∈ sc.hosts.map (·.addr)) :
    scanAction .subnetScan t sc.subnetScanCost ∈ flatActions sc := by
  unfold flatActions
  rw [List.mem_flatMap]
  exact ⟨t, ht, by simp [hostActions]⟩

theorem exploit_mem (sc : Scenario) {t : Addr} (ht : t ∈ sc.hosts.map (·.addr)) {e : ExploitDef}
    (he : e ∈ sc.exploits) : exploitAction t e ∈ flatActions sc := by
  unfold flatActions
  rw [List.mem_flatMap]
  refine ⟨t, ht, ?_⟩
  simp only [hostActions, List.mem_append, List.mem_map]
  exact Or.inl (Or.inr ⟨e, he, rfl⟩)

theorem privesc_mem (sc : Scenario) {t : Addr} (ht : t ∈ sc.hosts.map (·.addr)) {e : PrivescDef}
    (he : e ∈ sc.privescs) : privescAction t e ∈ flatActions sc := by
  unfold flatActions
  rw [List.mem_flatMap]
  refine ⟨t, ht, ?_⟩
  simp only [hostActions, List.mem_append, List.mem_map]
  exact Or.inr ⟨e, he, rfl⟩

/-- grants of the scenario's definitions are USER or ROOT -/
def GrantsOk (sc : Scenario) : Prop :=
  (∀ e ∈ sc.exploits, 1 ≤ e.access ∧ e.access ≤ 2) ∧ (∀ e ∈ sc.privescs, 1 ≤ e.access ∧ e.access ≤ 2)

theorem flat_actOk (sc : Scenario) (hg : GrantsOk sc) (i : Nat) :
    ActOk ((flatActions sc).getD i noopAction) := by
  have key : ∀ a ∈ flatActions sc, ActOk a := by
    intro a ha
    unfold flatActions at ha
    rw [List.mem_flatMap] at ha
    obtain ⟨t, _, ha⟩ := ha
    simp only [hostActions, List.mem_append, List.mem_map, List.mem_cons, List.not_mem_nil, or_false] at ha
    rcases ha with (ha | ⟨e, he, rfl⟩) | ⟨e, he, rfl⟩
    · rcases ha with rfl | rfl | rfl | rfl <;> (intro hk; simp [scanAction] at hk)
    · intro _; exact hg.1 e he
    · intro _; exact hg.2 e he
  by_cases hi : i < (flatActions sc).length
  · rw [List.getD_eq_getElem?_getD, List.getElem?_eq_getElem hi]
    exact key _ (List.getElem_mem hi)
  · rw [List.getD_eq_getElem?_getD, List.getElem?_eq_none (by omega)]
    intro hk; simp [noopAction] at hk

/-! ### invariants carried along a history -/

structure Good (sc : Scenario) (st : State) : Prop where
  wf : WF st
  inv3 : Inv3 sc.net st
  acc : AccOk st
  cfg : st.map cfg = sc.cfgRows.map cfg
  initLe : ∀ t, RowLe (sc.init.get t) (st.get t)

/-- pointwise order read through addresses -/
def Le (s s' : State) : Prop := ∀ t, RowLe (s.get t) (s'.get t)

theorem Le.refl (s : State) : Le s s := fun _ => RowLe.refl _
theorem Le.trans {a b c : State} (h1 : Le a b) (h2 : Le b c) : Le a c := fun t => RowLe.trans (h1 t) (h2 t)

theorem perform_le (n : Net) (s : State) (a : Action) (u : Rat) (hg : ActOk a) (hacc : AccOk s) :
    Le s (perform n s a u).1 := by
  intro t
  rw [perform_eq_map]
  unfold State.get
  rw [find_map (stepRow_addr n s a u)]
  cases hf : s.find? (fun r => r.addr == t) with
  | none => exact RowLe.refl _
  | some r =>
    simp only [Option.map_some, Option.getD_some]
    exact stepRow_le n s a u r hg (hacc r (List.mem_of_find?_eq_some hf))

theorem good_init (sc : Scenario) (hwf : (sc.hosts.map (·.addr)).Nodup) : Good sc sc.init := by
  have hw : WF sc.cfgRows := by
    unfold WF Scenario.cfgRows; rw [List.map_map]; exact hwf
  refine ⟨reset_wf _ _ hw, inv3_reset _ _, ?_, ?_, fun _ => RowLe.refl _⟩
  · intro r hr; obtain ⟨r0, _, rfl⟩ := List.mem_map.mp hr; simp
  · unfold Scenario.init reset; rw [List.map_map]; rfl

theorem good_perform (sc : Scenario) (st : State) (a : Action) (u : Rat) (hg : ActOk a) (h : Good sc st) :
    Good sc (perform sc.net st a u).1 := by
  refine ⟨perform_wf _ _ _ _ h.wf, inv3_perform _ _ _ _ h.wf h.inv3, ?_, by rw [perform_cfg]; exact h.cfg,
    fun t => RowLe.trans (h.initLe t) (perform_le _ _ _ u hg h.acc t)⟩
  rw [perform_eq_map]
  intro r' hr'
  obtain ⟨r, hr, rfl⟩ := List.mem_map.mp hr'
  exact stepRow_accOk _ _ a u r hg (h.acc r hr)

theorem reachFrom_good {sc : Scenario} (hg : GrantsOk sc) {st st' : State} (h : Good sc st)
    (hr : ReachFrom sc st st') : Good sc st' ∧ Le st st' := by
  induction hr with
  | init => exact ⟨h, Le.refl _⟩
  | step i u _ ih =>
    exact ⟨good_perform sc _ _ u (flat_actOk sc hg i) ih.1,
      Le.trans ih.2 (perform_le _ _ _ u (flat_actOk sc hg i) ih.1.acc)⟩

/-! ### rows of a good state -/

theorem lookup_some_mem {α β} [BEq α] [LawfulBEq α] : ∀ (l : List (α × β)) (k : α) (v : β),
    l.lookup k = some v → (k, v) ∈ l
  | [], _, _, h => by simp at h
  | (k', v') :: xs, k, v, h => by
    rw [List.lookup_cons] at h
    split at h
    · rename_i heq
      have : k = k' := by simpa using heq
      injection h with h; subst h; subst this; exact List.mem_cons_self ..
    · exact List.mem_cons_of_mem _ (lookup_some_mem xs k v h)

theorem lookup_of_key_mem {α β} [BEq α] [LawfulBEq α] : ∀ (l : List (α × β)) (k : α),
    k ∈ l.map (·.1) → ∃ v, l.lookup k = some v ∧ (k, v) ∈ l
  | [], _, h => by simp at h
  | (k', v') :: xs, k, h => by
    rw [List.lookup_cons]
    by_cases heq : k = k'
    · subst heq; exact ⟨v', by simp, List.mem_cons_self ..⟩
    · have : (k == k') = false := by simpa using heq
      simp only [this]
      simp only [List.map_cons, List.mem_cons] at h
      rcases h with h | h
      · exact absurd h heq
      · obtain ⟨v, hv, hm⟩ := lookup_of_key_mem xs k h
        exact ⟨v, hv, List.mem_cons_of_mem _ hm⟩

/-- the row of a host exists and carries the host's configuration -/
theorem good_row {sc : Scenario} {st : State} (h : Good sc st) {hd : HostDef} (hhd : hd ∈ sc.hosts) :
    st.get hd.addr ∈ st ∧ (st.get hd.addr).addr = hd.addr ∧ (st.get hd.addr).svc = hd.svc
      ∧ (st.get hd.addr).os = hd.os ∧ (st.get hd.addr).proc = hd.proc := by
  have hm : (hd.addr, hd.value, hd.dvalue, hd.os, hd.svc, hd.proc) ∈ st.map cfg := by
    rw [h.cfg]; unfold Scenario.cfgRows; rw [List.map_map]
    exact List.mem_map.mpr ⟨hd, hhd, rfl⟩
  obtain ⟨r, hr, hc⟩ := List.mem_map.mp hm
  simp only [cfg, Prod.mk.injEq] at hc
  obtain ⟨c1, _, _, c4, c5, c6⟩ := hc
  have := get_of_mem h.wf hr
  rw [c1] at this
  rw [this]
  exact ⟨hr, c1, c5, c4, c6⟩

/-- a host of subnet `x` is compromised with at least USER access -/
def Ctrl (sc : Scenario) (st : State) (x : Nat) : Prop :=
  ∃ hd ∈ sc.hosts, hd.addr.1 = x ∧ (st.get hd.addr).comp = true ∧ 1 ≤ (st.get hd.addr).access

theorem Ctrl.mono {sc : Scenario} {st st' : State} {x : Nat} (hle : Le st st') (h : Ctrl sc st x) :
    Ctrl sc st' x := by
  obtain ⟨hd, hhd, hx, hc, ha⟩ := h
  have := hle hd.addr
  exact ⟨hd, hhd, hx, this.1 hc, Nat.le_trans ha this.2.2.2⟩

theorem hostTraffic_nofw (sc : Scenario) (hno : ∀ h ∈ sc.hosts, h.fw = []) (src dst : Addr) (svc : Nat) :
    sc.net.hostTraffic src dst svc = true := by
  unfold Net.hostTraffic
  cases hl : sc.net.hostFw.lookup dst with
  | none => rfl
  | some m =>
    have hm := lookup_some_mem _ _ _ hl
    simp only [Scenario.net, List.mem_map, Prod.mk.injEq] at hm
    obtain ⟨hd, hhd, _, hfw⟩ := hm
    rw [← hfw, hno hd hhd]
    rfl

/-- a compromised source with USER access whose subnet may send `svc` to the target's subnet opens
both gates of an exploit -/
theorem exploit_gates {sc : Scenario} {st : State} (hno : ∀ h ∈ sc.hosts, h.fw = [])
    {c : Row} (hc : c ∈ st) (hcomp : c.comp = true) (hacc : 1 ≤ c.access) (t : Addr) (e : ExploitDef)
    (htr : sc.net.subnetTraffic c.addr.1 t.1 e.svc = true) :
    hasRemotePerm sc.net st (exploitAction t e) = true ∧ trafficPermitted sc.net st t e.svc = true := by
  constructor
  · unfold hasRemotePerm
    split
    · rfl
    · rw [List.any_eq_true]
      refine ⟨c, hc, ?_⟩
      simp [hcomp, exploitAction, Action.isScan, htr, hasAccess, hacc]
  · unfold trafficPermitted
    rw [Bool.or_eq_true]; right
    rw [List.any_eq_true]
    exact ⟨c, hc, by simp [hcomp, htr, hostTraffic_nofw sc hno]⟩

/-! ### the three kinds of step a constructed history uses -/

theorem runsOs_eq {r : Row} {hd : HostDef} (h : r.os = hd.os) (o : Option Nat) : runsOs r o = runsOsH hd o := by
  cases o <;> simp [runsOs, runsOsH, h]

/-- subnet scan from a controlled host: every host of a connected subnet is discovered afterwards -/
theorem scan_step {sc : Scenario} {st : State} (h : Good sc st) {hd : HostDef} (hhd : hd ∈ sc.hosts)
    (hc : (st.get hd.addr).comp = true) (ha : 1 ≤ (st.get hd.addr).access) :
    ∀ hd' ∈ sc.hosts, sc.net.conn hd.addr.1 hd'.addr.1 = true →
      (State.get (perform sc.net st (scanAction .subnetScan hd.addr sc.subnetScanCost) 0).1 hd'.addr).disc = true := by
  intro hd' hhd' hconn
  obtain ⟨hm, _, _⟩ := good_row h hhd
  obtain ⟨hm', haddr', _⟩ := good_row h hhd'
  obtain ⟨_, i2, i3⟩ := h.inv3 _ hm
  have hdisc := i2 hc
  have hreach := i3 hdisc
  have hg : gate sc.net st (scanAction .subnetScan hd.addr sc.subnetScanCost) = .pass := by
    unfold gate
    simp [scanAction, Action.isRemote, hreach, hdisc]
  have hch : ¬ (drawsNeeded st (scanAction .subnetScan hd.addr sc.subnetScanCost) = 1 ∧
      (0 : Rat) > (scanAction .subnetScan hd.addr sc.subnetScanCost).prob) := by
    intro hcc; have := hcc.2; simp [scanAction] at this; exact absurd this (by decide)
  rw [perform_eq_map, get_map (stepRow_addr _ _ _ _) ⟨hm', haddr'⟩]
  unfold stepRow
  simp only [hg, hch, if_false]
  unfold effRow
  have hacc : hasAccess (st.get hd.addr) 1 = true := by simp [hasAccess, ha]
  simp only [scanAction, beq_self_eq_true, if_true, hc, hacc, Bool.and_self]
  rw [discRow_disc, haddr', hconn]
  simp

/-- exploit of a reachable, discovered host the exploit applies to, with both gates open -/
theorem exploit_step {sc : Scenario} {st : State} (hgr : GrantsOk sc) (h : Good sc st) {hd : HostDef}
    (hhd : hd ∈ sc.hosts) {e : ExploitDef} (he : e ∈ sc.exploits) (hv : vulnE hd e = true)
    (hprob : 0 ≤ e.prob)
    (hreach : (st.get hd.addr).reach = true) (hdisc : (st.get hd.addr).disc = true)
    (hperm : hasRemotePerm sc.net st (exploitAction hd.addr e) = true)
    (htraf : trafficPermitted sc.net st hd.addr e.svc = true) :
    (State.get (perform sc.net st (exploitAction hd.addr e) 0).1 hd.addr).comp = true ∧
    (State.get (perform sc.net st (exploitAction hd.addr e) 0).1 hd.addr).access
      = max (st.get hd.addr).access e.access := by
  obtain ⟨hm, _, hsvc, hos, _⟩ := good_row h hhd
  have hg : gate sc.net st (exploitAction hd.addr e) = .pass := by
    unfold gate
    rw [hperm]
    simp [exploitAction, Action.isRemote, hreach, hdisc, htraf]
  have hp : hostPre (st.get hd.addr) (exploitAction hd.addr e) = true := by
    unfold hostPre exploitApplies
    unfold vulnE at hv
    simp only [exploitAction, beq_self_eq_true, Bool.true_and, hsvc, runsOs_eq hos, hv]
    rfl
  have hch : ¬ (drawsNeeded st (exploitAction hd.addr e) = 1 ∧ (0 : Rat) > (exploitAction hd.addr e).prob) := by
    intro hcc; exact absurd hcc.2 (Rat.not_lt.mpr hprob)
  have hok : ActOk (exploitAction hd.addr e) := fun _ => hgr.1 e he
  obtain ⟨_, c2, c3⟩ := C01_if sc.net st (exploitAction hd.addr e) 0 hg hp hch hok (h.acc _ hm)
  exact ⟨c2, c3⟩

/-- escalation on a compromised host it applies to -/
theorem privesc_step {sc : Scenario} {st : State} (hgr : GrantsOk sc) (h : Good sc st) {hd : HostDef}
    (hhd : hd ∈ sc.hosts) {e : PrivescDef} (he : e ∈ sc.privescs) (hv : vulnPE hd e = true)
    (hprob : 0 ≤ e.prob)
    (hc : (st.get hd.addr).comp = true) (ha : 1 ≤ (st.get hd.addr).access) :
    (State.get (perform sc.net st (privescAction hd.addr e) 0).1 hd.addr).access
      = max (st.get hd.addr).access e.access := by
  obtain ⟨hm, _, _, hos, hproc⟩ := good_row h hhd
  obtain ⟨_, i2, i3⟩ := h.inv3 _ hm
  have hdisc := i2 hc
  have hreach := i3 hdisc
  have hg : gate sc.net st (privescAction hd.addr e) = .pass := by
    unfold gate
    simp [privescAction, Action.isRemote, hreach, hdisc, hc]
  have hp : hostPre (st.get hd.addr) (privescAction hd.addr e) = true := by
    unfold hostPre privescApplies onHostOk
    unfold vulnPE at hv
    simp only [privescAction, hc, runsOs_eq hos]
    have hrp : runsProc (st.get hd.addr) e.proc = true := by
      cases hp : e.proc with
      | none => rfl
      | some pr => rw [hp] at hv; simp only [runsProc, hproc]; simp only [Bool.and_eq_true] at hv; exact hv.1
    simp only [Bool.and_eq_true] at hv
    simp [hrp, hv.2, ha]
  have hch : ¬ (drawsNeeded st (privescAction hd.addr e) = 1 ∧ (0 : Rat) > (privescAction hd.addr e).prob) := by
    intro hcc; exact absurd hcc.2 (Rat.not_lt.mpr hprob)
  have hok : ActOk (privescAction hd.addr e) := fun _ => hgr.2 e he
  exact (C01_if sc.net st (privescAction hd.addr e) 0 hg hp hch hok (h.acc _ hm)).2.2

/-! ### structure that makes a scenario solvable -/

structure Structure (sc : Scenario) (parent : Nat → Nat) : Prop where
  nodup : (sc.hosts.map (·.addr)).Nodup
  nofw : ∀ h ∈ sc.hosts, h.fw = []
  eacc : ∀ e ∈ sc.exploits, 1 ≤ e.access ∧ e.access ≤ 2
  pacc : ∀ e ∈ sc.privescs, e.access = 2
  eprob : ∀ e ∈ sc.exploits, 0 ≤ e.prob
  pprob : ∀ e ∈ sc.privescs, 0 ≤ e.prob
  par_lt : ∀ x, 1 ≤ x → x < sc.subnets.length → parent x < x
  par_conn : ∀ x, 1 ≤ x → x < sc.subnets.length → sc.net.conn (parent x) x = true
  par_pub : ∀ x, 1 ≤ x → x < sc.subnets.length → parent x = 0 → sc.net.pub x = true
  self_conn : ∀ x, 1 ≤ x → x < sc.subnets.length → sc.net.conn x x = true
  /-- the rule from the parent subnet admits a service some host of the subnet is vulnerable through -/
  entry : ∀ x, 1 ≤ x → x < sc.subnets.length → ∃ l, sc.fw.lookup (parent x, x) = some l ∧
    ∃ e ∈ sc.exploits, l.contains e.svc = true ∧ ∃ hd ∈ sc.hosts, hd.addr.1 = x ∧ vulnE hd e = true
  /-- sensitive hosts are hosts of network subnets and ROOT-vulnerable -/
  sens : ∀ a ∈ sc.sens, 1 ≤ a.1.1 ∧ a.1.1 < sc.subnets.length ∧
    ∃ hd ∈ sc.hosts, hd.addr = a.1 ∧ hostVulnerable sc.exploits sc.privescs hd 2 = true

theorem Structure.grants {sc : Scenario} {parent : Nat → Nat} (S : Structure sc parent) : GrantsOk sc :=
  ⟨S.eacc, fun e he => by rw [S.pacc e he]; exact ⟨by omega, by omega⟩⟩

/-- reachability of a host whose subnet is connected to a compromised host's subnet -/
theorem reach_of_ctrl {sc : Scenario} {st : State} (h : Good sc st) {c hd : HostDef}
    (hc : c ∈ sc.hosts) (hhd : hd ∈ sc.hosts) (hcomp : (st.get c.addr).comp = true)
    (hconn : sc.net.conn c.addr.1 hd.addr.1 = true) : (st.get hd.addr).reach = true := by
  obtain ⟨hm, haddr, _⟩ := good_row h hhd
  obtain ⟨hmc, haddrc, _⟩ := good_row h hc
  rw [(h.inv3 _ hm).1]
  right
  exact ⟨st.get c.addr, hmc, hcomp, by rw [haddrc, haddr]; exact hconn⟩

/-- entering subnet `x` from its parent (the internet, or a subnet already controlled) -/
theorem enter {sc : Scenario} {parent : Nat → Nat} (S : Structure sc parent) {st : State} (h : Good sc st)
    (x : Nat) (hx1 : 1 ≤ x) (hx2 : x < sc.subnets.length)
    (hp : parent x = 0 ∨ Ctrl sc st (parent x)) : ∃ st', ReachFrom sc st st' ∧ Ctrl sc st' x := by
  obtain ⟨l, hl, e, he, hsvc, hd, hhd, hdx, hv⟩ := S.entry x hx1 hx2
  have hconn := S.par_conn x hx1 hx2
  have hne : (parent x == x) = false := by
    have := S.par_lt x hx1 hx2; simp; omega
  have htraffic : sc.net.subnetTraffic (parent x) x e.svc = true := by
    unfold Net.subnetTraffic
    simp only [hne, hconn, Bool.not_true, Bool.false_eq_true, if_false]
    have : sc.net.fw.lookup (parent x, x) = some l := hl
    rw [this]; exact hsvc
  have haddr_mem : hd.addr ∈ sc.hosts.map (·.addr) := List.mem_map_of_mem hhd
  rcases hp with hp0 | hctrl
  · -- from the internet: the subnet is public
    have hpub := S.par_pub x hx1 hx2 hp0
    obtain ⟨hm, haddr, _⟩ := good_row h hhd
    have hreach : (st.get hd.addr).reach = true := by
      rw [(h.inv3 _ hm).1]; left; rw [haddr, hdx]; exact hpub
    have hdisc : (st.get hd.addr).disc = true := by
      apply (h.initLe hd.addr).2.2.1
      obtain ⟨hm0, haddr0, _⟩ := good_row (good_init sc S.nodup) hhd
      have := (C04_init_shape sc _ hm0).2.2.2
      rw [this, haddr0, hdx]; exact hpub
    have hperm : hasRemotePerm sc.net st (exploitAction hd.addr e) = true := by
      unfold hasRemotePerm
      have : sc.net.pub (exploitAction hd.addr e).target.1 = true := by
        simp only [exploitAction]; rw [hdx]; exact hpub
      rw [this]; rfl
    have htraf : trafficPermitted sc.net st hd.addr e.svc = true := by
      unfold trafficPermitted
      rw [hdx, hpub, ← hp0, htraffic]; rfl
    obtain ⟨c1, c2⟩ := exploit_step S.grants h hhd he hv (S.eprob e he) hreach hdisc hperm htraf
    refine ⟨_, ReachFrom.one st (exploit_mem sc haddr_mem he) 0, hd, hhd, hdx, c1, ?_⟩
    rw [c2]; have := (S.eacc e he).1; omega
  · -- from a controlled host of the parent subnet: scan, then exploit
    obtain ⟨c, hc, hcx, hccomp, hcacc⟩ := hctrl
    have hcmem : c.addr ∈ sc.hosts.map (·.addr) := List.mem_map_of_mem hc
    have hscan := scan_step h hc hccomp hcacc hd hhd (by rw [hcx, hdx]; exact hconn)
    generalize hst1 : (perform sc.net st (scanAction .subnetScan c.addr sc.subnetScanCost) 0).1 = st1 at hscan
    have hr1 : ReachFrom sc st st1 := by rw [← hst1]; exact ReachFrom.one st (scan_mem sc hcmem) 0
    obtain ⟨h1, hle1⟩ := reachFrom_good S.grants h hr1
    have hccomp1 := (hle1 c.addr).1 hccomp
    have hcacc1 : 1 ≤ (st1.get c.addr).access := Nat.le_trans hcacc (hle1 c.addr).2.2.2
    have hreach1 := reach_of_ctrl h1 hc hhd hccomp1 (by rw [hcx, hdx]; exact hconn)
    obtain ⟨hmc1, haddrc1, _⟩ := good_row h1 hc
    obtain ⟨hperm, htraf⟩ := exploit_gates S.nofw hmc1 hccomp1 hcacc1 hd.addr e
      (by rw [haddrc1, hcx, hdx]; exact htraffic)
    obtain ⟨c1, c2⟩ := exploit_step S.grants h1 hhd he hv (S.eprob e he) hreach1 hscan hperm htraf
    refine ⟨_, hr1.trans (ReachFrom.one st1 (exploit_mem sc haddr_mem he) 0), hd, hhd, hdx, c1, ?_⟩
    rw [c2]; have := (S.eacc e he).1; omega

/-- every network subnet can be brought under control, from any state of a history -/
theorem control_all {sc : Scenario} {parent : Nat → Nat} (S : Structure sc parent) :
    ∀ (x : Nat), 1 ≤ x → x < sc.subnets.length → ∀ (st : State), Good sc st →
      ∃ st', ReachFrom sc st st' ∧ Ctrl sc st' x := by
  intro x
  induction x using Nat.strongRecOn with
  | _ x ih =>
    intro hx1 hx2 st h
    have hlt := S.par_lt x hx1 hx2
    by_cases hp0 : parent x = 0
    · exact enter S h x hx1 hx2 (Or.inl hp0)
    · obtain ⟨st1, hr1, hc1⟩ := ih (parent x) hlt (by omega) (by omega) st h
      obtain ⟨h1, _⟩ := reachFrom_good S.grants h hr1
      obtain ⟨st2, hr2, hc2⟩ := enter S h1 x hx1 hx2 (Or.inr hc1)
      exact ⟨st2, hr1.trans hr2, hc2⟩

/-- from control of its subnet, a ROOT-vulnerable host is rooted -/
theorem root_host {sc : Scenario} {parent : Nat → Nat} (S : Structure sc parent) {st : State} (h : Good sc st)
    {hd : HostDef} (hhd : hd ∈ sc.hosts) (hx1 : 1 ≤ hd.addr.1) (hx2 : hd.addr.1 < sc.subnets.length)
    (hctrl : Ctrl sc st hd.addr.1) (hv : hostVulnerable sc.exploits sc.privescs hd 2 = true) :
    ∃ st', ReachFrom sc st st' ∧ 2 ≤ (st'.get hd.addr).access := by
  obtain ⟨c, hc, hcx, hccomp, hcacc⟩ := hctrl
  have hself := S.self_conn _ hx1 hx2
  have hcmem : c.addr ∈ sc.hosts.map (·.addr) := List.mem_map_of_mem hc
  have haddr_mem : hd.addr ∈ sc.hosts.map (·.addr) := List.mem_map_of_mem hhd
  have hscan := scan_step h hc hccomp hcacc hd hhd (by rw [hcx]; exact hself)
  generalize hst1 : (perform sc.net st (scanAction .subnetScan c.addr sc.subnetScanCost) 0).1 = st1 at hscan
  have hr1 : ReachFrom sc st st1 := by rw [← hst1]; exact ReachFrom.one st (scan_mem sc hcmem) 0
  obtain ⟨h1, hle1⟩ := reachFrom_good S.grants h hr1
  have hccomp1 := (hle1 c.addr).1 hccomp
  have hcacc1 : 1 ≤ (st1.get c.addr).access := Nat.le_trans hcacc (hle1 c.addr).2.2.2
  have hreach1 := reach_of_ctrl h1 hc hhd hccomp1 (by rw [hcx]; exact hself)
  obtain ⟨hmc1, haddrc1, _⟩ := good_row h1 hc
  unfold hostVulnerable at hv
  rw [List.any_eq_true] at hv
  obtain ⟨e, he, hve⟩ := hv
  simp only [Bool.and_eq_true, Bool.or_eq_true, decide_eq_true_eq] at hve
  obtain ⟨hvul, hlvl⟩ := hve
  obtain ⟨hperm, htraf⟩ := exploit_gates S.nofw hmc1 hccomp1 hcacc1 hd.addr e
    (by rw [haddrc1, hcx]; exact subnetTraffic_same _ _ _)
  obtain ⟨c1, c2⟩ := exploit_step S.grants h1 hhd he hvul (S.eprob e he) hreach1 hscan hperm htraf
  generalize hst2 : (perform sc.net st1 (exploitAction hd.addr e) 0).1 = st2 at c1 c2
  have hr2 : ReachFrom sc st st2 := by
    rw [← hst2]; exact hr1.trans (ReachFrom.one st1 (exploit_mem sc haddr_mem he) 0)
  rcases hlvl with hlvl | hpe
  · exact ⟨st2, hr2, by rw [c2]; omega⟩
  · rw [List.any_eq_true] at hpe
    obtain ⟨pe, hpe, hvpe⟩ := hpe
    obtain ⟨h2, _⟩ := reachFrom_good S.grants h hr2
    have hacc2 : 1 ≤ (st2.get hd.addr).access := by rw [c2]; have := (S.eacc e he).1; omega
    have c3 := privesc_step S.grants h2 hhd hpe hvpe (S.pprob pe hpe) c1 hacc2
    refine ⟨_, hr2.trans (ReachFrom.one st2 (privesc_mem sc haddr_mem hpe) 0), ?_⟩
    rw [c3, S.pacc pe hpe]; omega

/-- all listed sensitive hosts rooted, one after the other -/
theorem root_all {sc : Scenario} {parent : Nat → Nat} (S : Structure sc parent) :
    ∀ (l : List (Addr × Int)), (∀ a ∈ l, a ∈ sc.sens) → ∀ (st : State), Good sc st →
      ∃ st', ReachFrom sc st st' ∧ ∀ a ∈ l, 2 ≤ (st'.get a.1).access := by
  intro l
  induction l with
  | nil => intro _ st _; exact ⟨st, ReachFrom.init, by simp⟩
  | cons a rest ih =>
    intro hsub st h
    obtain ⟨st1, hr1, hrest⟩ := ih (fun b hb => hsub b (List.mem_cons_of_mem _ hb)) st h
    obtain ⟨h1, _⟩ := reachFrom_good S.grants h hr1
    obtain ⟨hx1, hx2, hd, hhd, hda, hv⟩ := S.sens a (hsub a (List.mem_cons_self ..))
    rw [← hda] at hx1 hx2
    obtain ⟨st2, hr2, hc2⟩ := control_all S hd.addr.1 hx1 hx2 st1 h1
    obtain ⟨h2, _⟩ := reachFrom_good S.grants h1 hr2
    obtain ⟨st3, hr3, hroot⟩ := root_host S h2 hhd hx1 hx2 hc2 hv
    obtain ⟨_, hle13⟩ := reachFrom_good S.grants h1 (hr2.trans hr3)
    refine ⟨st3, hr1.trans (hr2.trans hr3), ?_⟩
    intro b hb
    rcases List.mem_cons.mp hb with rfl | hb
    · rw [← hda]; exact hroot
    · exact Nat.le_trans (hrest b hb) (hle13 b.1).2.2.2

/-- **solvability from structure**: a history over the scenario's action space, every draw 0, from
the initial state to a state in which every sensitive host is rooted -/
theorem solvable_of_structure {sc : Scenario} {parent : Nat → Nat} (S : Structure sc parent) :
    ∃ st, ReachFlat sc st ∧ goal sc.net st = true := by
  obtain ⟨st, hr, hall⟩ := root_all S sc.sens (fun a ha => ha) sc.init (good_init sc S.nodup)
  refine ⟨st, reachFlat_of_from hr, ?_⟩
  unfold goal
  rw [List.all_eq_true]
  intro a ha
  have := hall a ha
  simp [hasAccess, this]


/-- histories over a scenario's own action space are histories in the sense of `Reach` (whose
actions must grant USER or ROOT) as soon as the scenario's definitions do -/
theorem reach_of_reachFlat {sc : Scenario} (hg : GrantsOk sc) {s : State} (h : ReachFlat sc s) :
    Reach sc.net sc.init s := by
  induction h with
  | init => exact Reach.init
  | step i u _ ih => exact Reach.step _ u (flat_actOk sc hg i) ih

theorem accOk_init (sc : Scenario) : AccOk sc.init := by
  intro r hr; rw [(C04_init_shape sc r hr).2.1]; omega

end NASim
