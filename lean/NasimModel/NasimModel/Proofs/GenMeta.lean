import NasimModel.Proofs.GenInv
/-! Address, value, discovery value and (empty) firewall of generated hosts are never rewritten. -/
namespace NASim.Gen

def hmeta (h : HostDef) : Addr × Int × Int × List (Addr × List Nat) := (h.addr, h.value, h.dvalue, h.fw)

theorem setOs_hmeta (h : HostDef) (o : Option Nat) : hmeta (setOs h o) = hmeta h := by cases o <;> rfl

theorem updateVulnerable_hmeta (es : List ExploitDef) (ps : List PrivescDef) (lvl : Nat) :
    ∀ (tries : Nat) (h h' : HostDef) (s s' : List Tok),
    updateVulnerable es ps lvl tries h s = .ok (h', s') → hmeta h' = hmeta h := by
  intro tries
  induction tries with
  | zero => intro h h' s s' hh; simp only [updateVulnerable] at hh; exact (fail_ok hh).elim
  | succ tries ih =>
    intro h h' s s' hh
    simp only [updateVulnerable] at hh
    obtain ⟨ei, s1, _, hh⟩ := bind_ok hh
    split at hh
    · obtain ⟨rfl, _⟩ := pure_ok hh; rw [setOs_hmeta]; rfl
    · split at hh
      · have := ih _ _ _ _ hh; rw [this, setOs_hmeta]; rfl
      · obtain ⟨pi, s2, _, hh⟩ := bind_ok hh
        obtain ⟨rfl, _⟩ := pure_ok hh
        have : ∀ (x : HostDef) (pr : List Bool), hmeta { x with proc := pr } = hmeta x := fun _ _ => rfl
        rw [this, setOs_hmeta]; rfl

theorem ensurePass1_hmeta (es : List ExploitDef) (ps : List PrivescDef) (sens : List (Addr × Int)) (retries : Nat) :
    ∀ (hs : List HostDef) (vul : List Nat) (s s' : List Tok) (r : List HostDef × List Nat),
    ensurePass1 es ps sens retries hs vul s = .ok (r, s') → r.1.map hmeta = hs.map hmeta := by
  intro hs
  induction hs with
  | nil => intro vul s s' r h; simp only [ensurePass1] at h; obtain ⟨rfl, _⟩ := pure_ok h; rfl
  | cons x xs ih =>
    intro vul s s' r h
    simp only [ensurePass1] at h
    split at h
    · obtain ⟨⟨rest, vul'⟩, s1, h1, h⟩ := bind_ok h
      obtain ⟨rfl, _⟩ := pure_ok h
      simp [ih _ _ _ _ h1]
    · split at h
      · obtain ⟨x', s1, hx, h⟩ := bind_ok h
        obtain ⟨⟨rest, vul'⟩, s2, h1, h⟩ := bind_ok h
        obtain ⟨rfl, _⟩ := pure_ok h
        have hx' : hmeta x' = hmeta x := by
          unfold fixSensitive at hx
          split at hx
          · exact updateVulnerable_hmeta _ _ _ _ _ _ _ _ hx
          · obtain ⟨rfl, _⟩ := pure_ok hx; rfl
        simp [ih _ _ _ _ h1, hx']
      · obtain ⟨⟨rest, vul'⟩, s1, h1, h⟩ := bind_ok h
        obtain ⟨rfl, _⟩ := pure_ok h
        simp [ih _ _ _ _ h1]

theorem updateAt_hmeta (es : List ExploitDef) (ps : List PrivescDef) (retries : Nat) (a : Addr) :
    ∀ (hs hs' : List HostDef) (s s' : List Tok),
    updateAt es ps retries a hs s = .ok (hs', s') → hs'.map hmeta = hs.map hmeta := by
  intro hs
  induction hs with
  | nil => intro hs' s s' h; simp only [updateAt] at h; obtain ⟨rfl, _⟩ := pure_ok h; rfl
  | cons x xs ih =>
    intro hs' s s' h
    simp only [updateAt] at h
    split at h
    · obtain ⟨x', s1, hx, h⟩ := bind_ok h
      obtain ⟨rfl, _⟩ := pure_ok h
      simp [updateVulnerable_hmeta _ _ _ _ _ _ _ _ hx]
    · obtain ⟨rest, s1, h1, h⟩ := bind_ok h
      obtain ⟨rfl, _⟩ := pure_ok h
      simp [ih _ _ _ h1]

theorem ensurePass2_hmeta (es : List ExploitDef) (ps : List PrivescDef) (retries : Nat) :
    ∀ (subs : List (Nat × Nat)) (vul : List Nat) (hs hs' : List HostDef) (s s' : List Tok),
    ensurePass2 es ps retries subs vul hs s = .ok (hs', s') → hs'.map hmeta = hs.map hmeta := by
  intro subs
  induction subs with
  | nil => intro vul hs hs' s s' h; simp only [ensurePass2] at h; obtain ⟨rfl, _⟩ := pure_ok h; rfl
  | cons x xs ih =>
    intro vul hs hs' s s' h
    obtain ⟨size, subnet⟩ := x
    simp only [ensurePass2] at h
    split at h
    · exact ih _ _ _ _ _ h
    · obtain ⟨k, s1, _, h⟩ := bind_ok h
      obtain ⟨hs1, s2, h1, h⟩ := bind_ok h
      rw [ih _ _ _ _ _ h, updateAt_hmeta _ _ _ _ _ _ _ _ h1]

theorem mkHost_hmeta (p : Params) (sens : List (Addr × Int)) (a : Addr) (c : Cfg) :
    hmeta (mkHost p sens a c) = (a, (sens.lookup a).getD p.baseHostValue, p.hostDiscoveryValue, []) := rfl

theorem correlatedHosts_hmeta (p : Params) (sens : List (Addr × Int)) :
    ∀ (as : List Addr) (n : Nat) (prev : Prev) (s s' : List Tok) (hs : List HostDef),
    correlatedHosts p sens as n prev s = .ok (hs, s') →
    hs.map hmeta = as.map fun a => (a, (sens.lookup a).getD p.baseHostValue, p.hostDiscoveryValue, []) := by
  intro as
  induction as with
  | nil => intro n prev s s' hs h; simp only [correlatedHosts] at h; obtain ⟨rfl, _⟩ := pure_ok h; rfl
  | cons a as ih =>
    intro n prev s s' hs h
    simp only [correlatedHosts] at h
    obtain ⟨⟨cfg, prev'⟩, s1, _, h⟩ := bind_ok h
    obtain ⟨rest, s2, h2, h⟩ := bind_ok h
    obtain ⟨rfl, _⟩ := pure_ok h
    simp [mkHost_hmeta, ih _ _ _ _ _ h2]

theorem uniformHosts_hmeta (p : Params) (sens : List (Addr × Int)) (sc pc : List (List Bool)) :
    ∀ (as : List Addr) (s s' : List Tok) (hs : List HostDef),
    uniformHosts p sens sc pc as s = .ok (hs, s') →
    hs.map hmeta = as.map fun a => (a, (sens.lookup a).getD p.baseHostValue, p.hostDiscoveryValue, []) := by
  intro as
  induction as with
  | nil => intro s s' hs h; simp only [uniformHosts] at h; obtain ⟨rfl, _⟩ := pure_ok h; rfl
  | cons a as ih =>
    intro s s' hs h
    simp only [uniformHosts] at h
    obtain ⟨si, s1, _, h⟩ := bind_ok h
    obtain ⟨pi, s2, _, h⟩ := bind_ok h
    obtain ⟨os, s3, _, h⟩ := bind_ok h
    obtain ⟨rest, s4, h4, h⟩ := bind_ok h
    obtain ⟨rfl, _⟩ := pure_ok h
    simp [mkHost_hmeta, ih _ _ _ h4]

end NASim.Gen
