import NasimModel.Model.PyRt
import NasimModel.Proofs.Inv
/-!
# Lemmas for tying the hand-written model to the translated source (`Generated/SrcDyn.lean`)

Generic facts about `PyRt.forEach` (loops that search, loops that rewrite the state row by row and
fold the old rows into accumulators), the write-through of host views, Python's `dict` stores and
the bookkeeping of the subnet scan.  Nothing here mentions a translated function.
-/
open NASim
namespace NASim

/-- the state's rows are the network's address space, in order -/
def Sync (n : Net) (s : State) : Prop := n.addrs = s.map (·.addr)

theorem forEach_any {α : Type} (l : List α) (p : α → Bool) :
    PyRt.forEach (β := Bool) l () (fun x _ => if p x then .ret true else .next ()) =
      if l.any p then .ret true else .next () := by
  induction l with
  | nil => simp [PyRt.forEach]
  | cons x xs ih =>
    simp only [PyRt.forEach, List.any_cons]
    by_cases hp : p x = true
    · simp [hp]
    · simp [hp, ih]

theorem forEach_all {α : Type} (l : List α) (p : α → Bool) :
    PyRt.forEach (β := Bool) l () (fun x _ => if !p x then .ret false else .next ()) =
      if l.all p then .next () else .ret false := by
  induction l with
  | nil => simp [PyRt.forEach]
  | cons x xs ih =>
    unfold PyRt.forEach
    cases hp : p x
    · simp [hp]
    · rw [List.all_cons, hp]
      simpa [hp] using ih

/-- a loop that never leaves early is a fold -/
theorem forEach_next {α σ : Type} (l : List α) (st : σ) (g : α → σ → σ) :
    PyRt.forEach (β := Empty) l st (fun x s => .next (g x s)) = .next (l.foldl (fun s x => g x s) st) := by
  induction l generalizing st with
  | nil => rfl
  | cons x xs ih => simp only [PyRt.forEach, List.foldl_cons]; exact ih _

theorem any_addrs {s : State} (hwf : WF s) (f : Row → Bool) :
    (s.map (·.addr)).any (fun x => f (s.get x)) = s.any f := by
  rw [List.any_map]
  rw [Bool.eq_iff_iff, List.any_eq_true, List.any_eq_true]
  constructor
  · rintro ⟨r, hr, h⟩; exact ⟨r, hr, by simpa [get_of_mem hwf hr] using h⟩
  · rintro ⟨r, hr, h⟩; exact ⟨r, hr, by simpa [get_of_mem hwf hr] using h⟩

theorem forEach_congr {α β σ : Type} (l : List α) (b1 b2 : α → σ → PyRt.Ctl β σ) (st : σ)
    (h : ∀ x ∈ l, ∀ t, b1 x t = b2 x t) : PyRt.forEach l st b1 = PyRt.forEach l st b2 := by
  induction l generalizing st with
  | nil => rfl
  | cons x xs ih =>
    unfold PyRt.forEach
    rw [h x (by simp) st]
    cases b2 x st with
    | ret v => rfl
    | next s' => exact ih s' (fun y hy t => h y (by simp [hy]) t)

theorem forEach_any' {α : Type} (l : List α) (body : α → Unit → PyRt.Ctl Bool Unit) (p : α → Bool)
    (h : ∀ x ∈ l, body x () = if p x then .ret true else .next ()) :
    PyRt.forEach l () body = if l.any p then .ret true else .next () := by
  rw [forEach_congr l body (fun x _ => if p x then .ret true else .next ()) () (fun x hx t => by cases t; exact h x hx)]
  exact forEach_any l p

theorem forEach_all' {α : Type} (l : List α) (body : α → Unit → PyRt.Ctl Bool Unit) (p : α → Bool)
    (h : ∀ x ∈ l, body x () = if !p x then .ret false else .next ()) :
    PyRt.forEach l () body = if l.all p then .next () else .ret false := by
  rw [forEach_congr l body (fun x _ => if !p x then .ret false else .next ()) () (fun x hx t => by cases t; exact h x hx)]
  exact forEach_all l p

theorem get_addr_of_mem {s : State} {x : Addr} (hx : x ∈ s.map (·.addr)) : (s.get x).addr = x := by
  obtain ⟨r, hr, rfl⟩ := List.mem_map.1 hx
  unfold State.get
  cases hf : s.find? (fun r' => r'.addr == r.addr) with
  | none => exact absurd hf (by simp; exact ⟨r, hr, rfl⟩)
  | some r' => simpa using List.find?_some hf

def remoteSrcOk (n : Net) (a : Action) (r : Row) : Bool :=
  r.comp && !(a.isScan && !n.conn r.addr.1 a.target.1)
    && !(a.kind == .exploit && !n.subnetTraffic r.addr.1 a.target.1 a.svc) && hasAccess r a.req

def trafficSrcOk (n : Net) (t : Addr) (svc : Nat) (r : Row) : Bool :=
  r.comp && n.subnetTraffic r.addr.1 t.1 svc && n.hostTraffic r.addr t svc

theorem get_split (pre post : List Row) (r : Row) (a : Addr) (ha : r.addr = a)
    (hpre : ∀ x ∈ pre, x.addr ≠ a) : State.get (pre ++ r :: post) a = r := by
  unfold State.get
  rw [List.find?_append]
  have : pre.find? (fun r' => r'.addr == a) = none := by
    simp only [List.find?_eq_none]; intro x hx; simpa using hpre x hx
  simp [this, ha]

theorem updHost_split (pre post : List Row) (r : Row) (a : Addr) (g : Row → Row) (ha : r.addr = a)
    (hpre : ∀ x ∈ pre, x.addr ≠ a) (hpost : ∀ x ∈ post, x.addr ≠ a) :
    PyRt.updHost (pre ++ r :: post) a g = pre ++ g r :: post := by
  unfold PyRt.updHost
  simp only [List.map_append, List.map_cons, ha, beq_self_eq_true, if_true]
  congr 1
  · conv => rhs; rw [← List.map_id pre]
    apply List.map_congr_left; intro x hx; simp [hpre x hx]
  · congr 1
    conv => rhs; rw [← List.map_id post]
    apply List.map_congr_left; intro x hx; simp [hpost x hx]

theorem wf_split {pre post : List Row} {r : Row} (h : WF (pre ++ r :: post)) :
    (∀ x ∈ pre, x.addr ≠ r.addr) ∧ (∀ x ∈ post, x.addr ≠ r.addr) := by
  unfold WF at h
  simp only [List.map_append, List.map_cons, List.nodup_append, List.nodup_cons, List.mem_map, List.mem_cons] at h
  refine ⟨fun x hx he => ?_, fun x hx he => ?_⟩
  · exact h.2.2 x.addr ⟨x, hx, rfl⟩ r.addr (Or.inl rfl) he
  · exact h.2.1.1 ⟨x, hx, he⟩

theorem forEach_rows {σ : Type} (s : State) (hwf : WF s) (f : Row → Row) (hf : ∀ r, (f r).addr = r.addr)
    (h : σ → Row → σ) (I : List Row → σ → Prop)
    (body : Addr → State × σ → PyRt.Ctl Empty (State × σ)) (acc0 : σ) (h0 : I [] acc0)
    (hbody : ∀ pre r post acc, s = pre ++ r :: post → I pre acc →
       (∀ x ∈ pre.map f, x.addr ≠ r.addr) → (∀ x ∈ post, x.addr ≠ r.addr) →
       body r.addr (pre.map f ++ r :: post, acc) = .next (pre.map f ++ f r :: post, h acc r) ∧ I (pre ++ [r]) (h acc r)) :
    PyRt.forEach (s.map (·.addr)) (s, acc0) body = .next (s.map f, s.foldl h acc0) := by
  suffices H : ∀ post pre acc, s = pre ++ post → I pre acc →
      PyRt.forEach (post.map (·.addr)) (pre.map f ++ post, acc) body = .next (s.map f, post.foldl h acc) by
    simpa using H s [] acc0 (by simp) h0
  intro post
  induction post with
  | nil => intro pre acc hs _; simp [PyRt.forEach, hs]
  | cons r post ih =>
    intro pre acc hs hI
    have hw := wf_split (hs ▸ hwf)
    have hpre : ∀ x ∈ pre.map f, x.addr ≠ r.addr := by
      intro x hx; obtain ⟨y, hy, rfl⟩ := List.mem_map.1 hx; rw [hf]; exact hw.1 y hy
    obtain ⟨hb, hI'⟩ := hbody pre r post acc hs hI hpre hw.2
    simp only [List.map_cons, PyRt.forEach, hb, List.foldl_cons]
    have := ih (pre ++ [r]) (h acc r) (by simp [hs]) hI'
    simpa using this

theorem forEach_rows0 (s : State) (hwf : WF s) (f : Row → Row) (hf : ∀ r, (f r).addr = r.addr)
    (body : Addr → State → PyRt.Ctl Empty State)
    (hbody : ∀ pre r post, s = pre ++ r :: post →
       (∀ x ∈ pre.map f, x.addr ≠ r.addr) → (∀ x ∈ post, x.addr ≠ r.addr) →
       body r.addr (pre.map f ++ r :: post) = .next (pre.map f ++ f r :: post)) :
    PyRt.forEach (s.map (·.addr)) s body = .next (s.map f) := by
  suffices H : ∀ post pre, s = pre ++ post →
      PyRt.forEach (post.map (·.addr)) (pre.map f ++ post) body = .next (s.map f) by
    simpa using H s [] (by simp)
  intro post
  induction post with
  | nil => intro pre hs; simp [PyRt.forEach, hs]
  | cons r post ih =>
    intro pre hs
    have hw := wf_split (hs ▸ hwf)
    have hpre : ∀ x ∈ pre.map f, x.addr ≠ r.addr := by
      intro x hx; obtain ⟨y, hy, rfl⟩ := List.mem_map.1 hx; rw [hf]; exact hw.1 y hy
    have hb := hbody pre r post hs hpre hw.2
    simp only [List.map_cons, PyRt.forEach, hb]
    have := ih (pre ++ [r]) (by simp [hs])
    simpa using this

theorem dictSet_fresh {β : Type} (d : List (Addr × β)) (k : Addr) (v : β) (h : ∀ e ∈ d, e.1 ≠ k) :
    PyRt.dictSet d k v = d ++ [(k, v)] := by
  unfold PyRt.dictSet
  have : d.any (fun e => e.1 == k) = false := by
    simp only [List.any_eq_false]; intro e he; simpa using h e he
  simp [this]

theorem dictSet_last {β : Type} (d : List (Addr × β)) (k : Addr) (v w : β) (h : ∀ e ∈ d, e.1 ≠ k) :
    PyRt.dictSet (d ++ [(k, v)]) k w = d ++ [(k, w)] := by
  unfold PyRt.dictSet
  have : (d ++ [(k, v)]).any (fun e => e.1 == k) = true := by simp
  rw [this, if_pos rfl, List.map_append]
  congr 1
  · conv => rhs; rw [← List.map_id d]
    apply List.map_congr_left; intro e he; simp [h e he]
  · simp

abbrev ScanAcc := List (Addr × Bool) × List (Addr × Bool) × Int

def scanStep (n : Net) (sub : Nat) (acc : ScanAcc) (r : Row) : ScanAcc :=
  (acc.1 ++ [(r.addr, n.conn sub r.addr.1 && !r.disc)], acc.2.1 ++ [(r.addr, n.conn sub r.addr.1)],
   acc.2.2 + (if n.conn sub r.addr.1 && !r.disc then r.dvalue else 0))

theorem scan_foldl (n : Net) (sub : Nat) (l : List Row) (acc : ScanAcc) :
    l.foldl (scanStep n sub) acc =
      (acc.1 ++ l.map (fun r => (r.addr, n.conn sub r.addr.1 && !r.disc)),
       acc.2.1 ++ l.map (fun r => (r.addr, n.conn sub r.addr.1)),
       (l.filter fun r => n.conn sub r.addr.1 && !r.disc).foldl (fun a r => a + r.dvalue) acc.2.2) := by
  induction l generalizing acc with
  | nil => simp
  | cons r l ih =>
    rw [List.foldl_cons, ih]
    simp only [scanStep, List.map_cons, List.append_assoc, List.singleton_append, List.filter_cons]
    by_cases h : (n.conn sub r.addr.1 && !r.disc) = true <;> simp [h]

def hostStep (s : State) (a : Action) : State := s.map fun r => if r.addr == a.target then hostRow a r else r

theorem setHost_eq (s : State) (a : Action) (hwf : WF s) :
    PyRt.setHost s a.target (hostPerform (s.get a.target) a).1 = hostStep s a := by
  unfold PyRt.setHost hostStep hostRow
  apply List.map_congr_left
  intro r hr
  by_cases h : (r.addr == a.target) = true
  · have : r.addr = a.target := by simpa using h
    simp [h, target_row hwf hr this]
  · simp [h]

theorem hostStep_addrs (s : State) (a : Action) : (hostStep s a).map (·.addr) = s.map (·.addr) := by
  unfold hostStep
  rw [List.map_map]
  apply List.map_congr_left
  intro r _
  simp only [Function.comp]
  split <;> simp

theorem hostStep_wf (s : State) (a : Action) (hwf : WF s) : WF (hostStep s a) := by
  unfold WF; rw [hostStep_addrs]; exact hwf

theorem hostStep_sync (n : Net) (s : State) (a : Action) (hs : Sync n s) : Sync n (hostStep s a) := by
  unfold Sync; rw [hostStep_addrs]; exact hs

@[simp] theorem isNone_or_runningOs (r : Row) (o : Option Nat) : (o.isNone || PyRt.isRunningOs r o) = runsOs r o := by
  cases o <;> simp [PyRt.isRunningOs, runsOs]
@[simp] theorem isNone_or_runningProc (r : Row) (o : Option Nat) : (o.isNone || PyRt.isRunningProc r o) = runsProc r o := by
  cases o <;> simp [PyRt.isRunningProc, runsProc]

/-! ### generic loop / Boolean lemmas shared by the loader and generator ties -/

theorem any_congr_mem {α : Type} (l : List α) (p q : α → Bool) (h : ∀ x ∈ l, p x = q x) : l.any p = l.any q := by
  induction l with
  | nil => rfl
  | cons x xs ih =>
    simp only [List.any_cons]
    rw [h x (List.mem_cons_self ..), ih (fun y hy => h y (List.mem_cons_of_mem _ hy))]

theorem all_congr_mem {α : Type} (l : List α) (p q : α → Bool) (h : ∀ x ∈ l, p x = q x) : l.all p = l.all q := by
  induction l with
  | nil => rfl
  | cons x xs ih =>
    simp only [List.all_cons]
    rw [h x (List.mem_cons_self ..), ih (fun y hy => h y (List.mem_cons_of_mem _ hy))]

theorem forEach_find {α β : Type} (l : List α) (p : α → Bool) (v : β) :
    PyRt.forEach (β := β) l () (fun x _ => if p x then .ret v else .next ()) =
      if l.any p then .ret v else .next () := by
  induction l with
  | nil => simp [PyRt.forEach]
  | cons x xs ih =>
    simp only [PyRt.forEach, List.any_cons]
    by_cases hp : p x = true
    · simp [hp]
    · simp [hp, ih]

theorem ite_not_false (c b : Bool) : (if (!c) = true then false else b) = (c && b) := by
  cases c <;> rfl

end NASim
