import NasimModel.Proofs.GenInv
/-! Firewall rules of the generator: defined services, no duplicates, at most `restrictiveness`. -/
namespace NASim.Gen

theorem mem_dedup (l : List Nat) (x : Nat) : x ∈ dedup l ↔ x ∈ l := by
  induction l with
  | nil => simp [dedup]
  | cons y ys ih =>
    simp only [dedup]
    split
    · rename_i hc
      have hy : y ∈ ys := List.contains_iff_mem.mp hc
      rw [ih]; simp only [List.mem_cons]
      constructor
      · exact Or.inr
      · rintro (rfl | h)
        · exact hy
        · exact h
    · simp [ih]

theorem nodup_dedup (l : List Nat) : (dedup l).Nodup := by
  induction l with
  | nil => simp [dedup]
  | cons y ys ih =>
    simp only [dedup]
    split
    · exact ih
    · rename_i hc
      refine List.nodup_cons.mpr ⟨?_, ih⟩
      rw [mem_dedup]
      intro hy; exact hc (List.contains_iff_mem.mpr hy)

theorem insertBy_perm (le : Nat → Nat → Bool) (x : Nat) (l : List Nat) : (insertBy le x l).Perm (x :: l) := by
  induction l with
  | nil => simp [insertBy]
  | cons y ys ih =>
    simp only [insertBy]
    split
    · exact List.Perm.refl _
    · exact (List.Perm.cons y ih).trans (List.Perm.swap x y ys)

theorem sortBy_perm (le : Nat → Nat → Bool) (l : List Nat) : (sortBy le l).Perm l := by
  induction l with
  | nil => simp [sortBy]
  | cons y ys ih =>
    simp only [sortBy, List.foldr_cons]
    exact (insertBy_perm le y _).trans (List.Perm.cons y ih)

/-- the draws of `_generate_firewall`: `k` distinct services taken out of `avail` -/
theorem drawAllowed_inv :
    ∀ (k : Nat) (avail allowed : List Nat) (s s' : List Tok) (r : List Nat),
    drawAllowed k avail allowed s = .ok (r, s') →
    avail.Nodup → allowed.Nodup → (∀ x ∈ allowed, x ∉ avail) →
    r.Nodup ∧ (∀ x ∈ r, x ∈ allowed ∨ x ∈ avail) ∧ r.length = allowed.length + k := by
  intro k
  induction k with
  | zero =>
    intro avail allowed s s' r h _ ha _
    simp only [drawAllowed] at h
    obtain ⟨rfl, _⟩ := pure_ok h
    exact ⟨ha, fun x hx => Or.inl hx, rfl⟩
  | succ k ih =>
    intro avail allowed s s' r h hav hal hdis
    simp only [drawAllowed] at h
    obtain ⟨i, s1, hi, h⟩ := bind_ok h
    have hlt := choice1_ok hi
    have hperm := sortBy_perm nameLe avail
    have hx : (sortBy nameLe avail).getD i 0 ∈ avail := by
      rw [List.getD_eq_getElem?_getD, List.getElem?_eq_getElem hlt]
      exact hperm.mem_iff.mp (List.getElem_mem hlt)
    generalize (sortBy nameLe avail).getD i 0 = x at h hx
    obtain ⟨a, b, c⟩ := ih (avail.erase x) (allowed ++ [x]) s1 s' r h (hav.erase x)
      (by
        rw [List.nodup_append]
        refine ⟨hal, by simp, ?_⟩
        intro y hy z hz
        simp at hz; subst hz
        intro heq; subst heq; exact hdis _ hy hx)
      (by
        intro y hy
        rcases List.mem_append.mp hy with hy | hy
        · intro hm; exact hdis y hy (List.mem_of_mem_erase hm)
        · simp at hy; subst hy
          exact fun hm => (hav.mem_erase_iff.mp hm).1 rfl)
    refine ⟨a, ?_, by simp at c; omega⟩
    intro y hy
    rcases b y hy with hb | hb
    · rcases List.mem_append.mp hb with hb | hb
      · exact Or.inl hb
      · simp at hb; subst hb; exact Or.inr hx
    · exact Or.inr (List.mem_of_mem_erase hb)

theorem allowedFor_inv {restr : Nat} {avail : List Nat} {s s' : List Tok} {r : List Nat}
    (h : allowedFor restr avail s = .ok (r, s')) (hav : avail.Nodup) :
    r.Nodup ∧ (∀ x ∈ r, x ∈ avail) ∧ r.length ≤ restr ∧ (avail ≠ [] → 0 < restr → r ≠ []) := by
  unfold allowedFor at h
  split at h
  · rename_i hlt
    obtain ⟨rfl, _⟩ := pure_ok h
    exact ⟨hav, fun x hx => hx, by omega, fun hne _ => hne⟩
  · obtain ⟨a, b, c⟩ := drawAllowed_inv _ _ _ _ _ _ h hav (by simp) (by simp)
    refine ⟨a, ?_, by simp at c; omega, ?_⟩
    · intro x hx; rcases b x hx with hb | hb
      · simp at hb
      · exact hb
    · intro _ hpos hnil
      rw [hnil] at c; simp at c; omega

theorem subnetServices_lt (es : List ExploitDef) (hosts : List HostDef) (d n : Nat)
    (hes : ∀ e ∈ es, e.svc < n) : ∀ x ∈ subnetServices es hosts d, x < n := by
  intro x hx
  unfold subnetServices at hx
  rw [mem_dedup] at hx
  obtain ⟨e, he, rfl⟩ := List.mem_map.mp hx
  exact hes e (List.mem_filter.mp he).1

/-- shape of one generated rule -/
def RuleShape (numServices restr : Nat) (e : (Nat × Nat) × List Nat) : Prop :=
  (∀ x ∈ e.2, x < numServices) ∧ e.2.Nodup ∧
  (2 < e.1.1 ∧ 2 < e.1.2 → e.2 = List.range numServices) ∧
  (¬ (2 < e.1.1 ∧ 2 < e.1.2) → e.2.length ≤ restr)

theorem genFirewall_shape (numServices restr : Nat) (topo : List (List Int)) (es : List ExploitDef)
    (hosts : List HostDef) (hes : ∀ e ∈ es, e.svc < numServices) :
    ∀ (pairs : List (Nat × Nat)) (s s' : List Tok) (fw : List ((Nat × Nat) × List Nat)),
    genFirewall numServices restr topo es hosts pairs s = .ok (fw, s') →
    ∀ e ∈ fw, RuleShape numServices restr e := by
  intro pairs
  induction pairs with
  | nil => intro s s' fw h; simp only [genFirewall] at h; obtain ⟨rfl, _⟩ := pure_ok h; simp
  | cons x xs ih =>
    intro s s' fw h
    obtain ⟨a, b⟩ := x
    simp only [genFirewall] at h
    split at h
    · exact ih _ _ _ h
    · split at h
      · rename_i huu
        obtain ⟨r, s1, h1, h⟩ := bind_ok h
        obtain ⟨rfl, _⟩ := pure_ok h
        intro e he
        rcases List.mem_cons.mp he with rfl | he
        · refine ⟨by simp, List.nodup_range, fun _ => rfl, ?_⟩
          intro hn; simp only [Bool.and_eq_true, decide_eq_true_eq] at huu; exact absurd huu hn
        · exact ih _ _ _ h1 e he
      · rename_i huu
        obtain ⟨allowed, s1, ha, h⟩ := bind_ok h
        obtain ⟨r, s2, h1, h⟩ := bind_ok h
        obtain ⟨rfl, _⟩ := pure_ok h
        intro e he
        rcases List.mem_cons.mp he with rfl | he
        · obtain ⟨n1, n2, n3, _⟩ := allowedFor_inv ha (nodup_dedup _)
          have hp := sortBy_perm natLe allowed
          refine ⟨?_, hp.nodup_iff.mpr n1, ?_, ?_⟩
          · intro x hx
            exact subnetServices_lt es hosts b numServices hes x (n2 x (hp.mem_iff.mp hx))
          · intro hc; simp only [Bool.and_eq_true, decide_eq_true_eq] at huu; exact absurd hc huu
          · intro _; rw [hp.length_eq]; exact n3
        · exact ih _ _ _ h1 e he

end NASim.Gen
