import NasimModel.Model.Core
import NasimModel.Proofs.Step
namespace NASim

def Result.flagCount (r : Result) : Nat := r.connErr.toNat + r.permErr.toNat + r.undefErr.toNat

theorem hostPerform_flags (r : Row) (a : Action) :
    ((hostPerform r a).2.success = true → (hostPerform r a).2.flagCount = 0) ∧ (hostPerform r a).2.flagCount ≤ 1 := by
  unfold hostPerform
  repeat' split
  all_goals simp [Result.flagCount]

theorem subnetScan_flags (n : Net) (s : State) (a : Action) :
    ((subnetScan n s a).2.success = true → (subnetScan n s a).2.flagCount = 0) ∧ (subnetScan n s a).2.flagCount ≤ 1 := by
  unfold subnetScan
  simp only []
  split
  · simp [Result.flagCount]
  · split <;> simp [Result.flagCount]

def Result.FlagsOk (r : Result) : Prop := (r.success = true → r.flagCount = 0) ∧ r.flagCount ≤ 1

theorem gate_flags (n : Net) (s : State) (a : Action) (r : Result) (h : gate n s a = .fail r) : r.FlagsOk := by
  unfold gate at h
  repeat' split at h
  all_goals simp_all [Result.FlagsOk, Result.flagCount]
  all_goals (subst h; simp)

theorem effect_flags (n : Net) (s : State) (a : Action) : (effect n s a).2.FlagsOk := by
  unfold effect
  split
  · exact subnetScan_flags n s a
  · exact hostPerform_flags _ a

theorem perform_flags (n : Net) (s : State) (a : Action) (u : Rat) : (perform n s a u).2.1.FlagsOk := by
  unfold perform
  split
  · simp [Result.FlagsOk, Result.flagCount]
  · rename_i r h; exact gate_flags n s a r h
  · split
    · simp [Result.FlagsOk, Result.flagCount, chanceFail]
    · exact effect_flags n s a

/-- gates failing: outcome independent of the draw and no draw consumed -/
theorem perform_gate_indep (n : Net) (s : State) (a : Action) (u v : Rat) (h : gate n s a ≠ .pass) :
    perform n s a u = perform n s a v ∧ (perform n s a u).2.2 = 0 ∧ (perform n s a u).1 = s := by
  unfold perform
  split <;> simp_all

/-- monotonicity of a single row under hostPerform -/
theorem hostPerform_mono (r : Row) (a : Action) (hg : ActOk a) (hr : r.access ≤ 2) :
    let r' := (hostPerform r a).1
    r.access ≤ r'.access ∧ r'.access ≤ 2 ∧ (r.comp = true → r'.comp = true) ∧ r'.reach = r.reach ∧ r'.disc = r.disc
      ∧ r'.addr = r.addr ∧ r'.value = r.value ∧ r'.dvalue = r.dvalue ∧ r'.os = r.os ∧ r'.svc = r.svc ∧ r'.proc = r.proc := by
  unfold ActOk at hg
  unfold hostPerform raiseAccess
  repeat' split
  all_goals simp_all
  all_goals omega

end NASim
