import NasimModel.Model.Pred
/-!
# Wire format of the driver (parsing / printing only; no semantics)

One request per line, tokens separated by blanks; every token is an integer or an exact
rational `n/d`. Replies are single lines of the same kind of tokens.
-/
namespace NASim.Wire

inductive Tok | i (v : Int) | q (v : Rat) | bad
deriving Repr, Inhabited

def parseTok (s : String) : Tok :=
  match s.splitOn "/" with
  | [a] => match a.toInt? with
    | some v => .i v
    | none => .bad
  | [a, b] => match a.toInt?, b.toNat? with
    | some n, some d => if d == 0 then .bad else .q (mkRat n d)
    | _, _ => .bad
  | _ => .bad

def Tok.int : Tok → Int
  | .i v => v
  | .q v => v.num / v.den
  | .bad => 0

def Tok.rat : Tok → Rat
  | .i v => (v : Rat)
  | .q v => v
  | .bad => 0

def tokens (line : String) : List String :=
  (line.trimAscii.toString.splitOn " ").filter (· != "")

def showRat (q : Rat) : String := s!"{q.num}/{q.den}"

def nat (i : Int) : Nat := i.toNat
def optNat (i : Int) : Option Nat := if i < 0 then none else some i.toNat
def optOut : Option Nat → Int
  | none => -1
  | some v => (v : Int)
def b (i : Int) : Bool := i != 0

def kindOf : Int → Kind
  | 0 => .noop | 1 => .svcScan | 2 => .osScan | 3 => .subnetScan | 4 => .procScan
  | 5 => .exploit | _ => .privesc

def kindNum : Kind → Int
  | .noop => 0 | .svcScan => 1 | .osScan => 2 | .subnetScan => 3 | .procScan => 4
  | .exploit => 5 | .privesc => 6

/-- `k x1 … xk rest` ↦ (`[x1 … xk]`, rest) -/
def takeCounted (xs : List Int) : (List Int × List Int) :=
  match xs with
  | k :: rest => (rest.take k.toNat, rest.drop k.toNat)
  | [] => ([], [])

/-- action tokens: kind ts th cost prob req svc proc os grant -/
def actionOfToks (ts : List Tok) : Option Action :=
  match ts with
  | [kind, s, h, cost, prob, req, svc, proc, os, grant] =>
    some { kind := kindOf kind.int, target := (nat s.int, nat h.int), cost := cost.int,
           prob := prob.rat, req := nat req.int, svc := nat svc.int, proc := optNat proc.int,
           os := optNat os.int, grant := nat grant.int }
  | _ => none

def actionToks (a : Action) : List String :=
  [toString (kindNum a.kind), toString a.target.1, toString a.target.2, toString a.cost,
   showRat a.prob, toString a.req, toString a.svc, toString (optOut a.proc),
   toString (optOut a.os), toString a.grant]

def optList : Option (List Bool) → List Int
  | none => [-1]
  | some l => (l.length : Int) :: l.map bi

def dynOf (s : State) : List Int :=
  s.flatMap fun r => [bi r.comp, bi r.reach, bi r.disc, (r.access : Int)]

/-- overlay the four dynamic columns of every row -/
def withDyn (rows : State) (dyn : List Int) : State :=
  (rows.zipIdx).map fun (r, i) =>
    { r with comp := b (dyn.getD (4*i) 0), reach := b (dyn.getD (4*i+1) 0),
             disc := b (dyn.getD (4*i+2) 0), access := nat (dyn.getD (4*i+3) 0) }

def sep : Int := -7777

def countedBools (l : List Bool) : List Int := (l.length : Int) :: l.map bi

/-- a full decoded row: address, the four dynamic columns, the configuration columns -/
def rowInts (r : Row) : List Int :=
  [(r.addr.1 : Int), (r.addr.2 : Int), bi r.comp, bi r.reach, bi r.disc, (r.access : Int),
   r.value, r.dvalue] ++ countedBools r.os ++ countedBools r.svc ++ countedBools r.proc

/-- inverse of `rowInts` on a token stream: one row and the rest -/
def takeRow (xs : List Int) : Option (Row × List Int) :=
  match xs with
  | s :: h :: c :: re :: d :: acc :: v :: dv :: ys =>
    let (os, ys) := takeCounted ys
    let (svc, ys) := takeCounted ys
    let (proc, ys) := takeCounted ys
    some ({ addr := (nat s, nat h), comp := b c, reach := b re, disc := b d, access := nat acc,
            value := v, dvalue := dv, os := os.map b, svc := svc.map b, proc := proc.map b }, ys)
  | _ => none

def takeRows : Nat → List Int → List Row × List Int
  | 0, xs => ([], xs)
  | k+1, xs => match takeRow xs with
    | some (r, ys) => let (rs, zs) := takeRows k ys; (r :: rs, zs)
    | none => ([], xs)

def resultInts (r : Result) : List Int :=
  [bi r.success, r.value, bi r.connErr, bi r.permErr, bi r.undefErr]
  ++ optList r.svcInfo ++ optList r.osInfo ++ optList r.procInfo ++ [optOut r.accessInfo]
  ++ ((r.discovered.length : Int) :: r.discovered.map (fun p => bi p.2))
  ++ ((r.newly.length : Int) :: r.newly.map (fun p => bi p.2))

def takeOptList (xs : List Int) : Option (List Bool) × List Int :=
  match xs with
  | k :: rest =>
    if k < 0 then (none, rest) else (some ((rest.take k.toNat).map b), rest.drop k.toNat)
  | [] => (none, [])

/-- inverse of `resultInts` -/
def takeResult (addrs : List Addr) (xs : List Int) : Result × List Int :=
  match xs with
  | su :: v :: ce :: pe :: ue :: ys =>
    let (svc, ys) := takeOptList ys
    let (os, ys) := takeOptList ys
    let (proc, ys) := takeOptList ys
    let acc := optNat (ys.headD (-1))
    let ys := ys.drop 1
    let (disc, ys) := takeCounted ys
    let (newly, ys) := takeCounted ys
    ({ success := b su, value := v, connErr := b ce, permErr := b pe, undefErr := b ue,
       svcInfo := svc, osInfo := os, procInfo := proc, accessInfo := acc,
       discovered := if disc.isEmpty then [] else addrs.zip (disc.map b),
       newly := if newly.isEmpty then [] else addrs.zip (newly.map b) }, ys)
  | _ => (default, [])

/-- split a token list at separators -/
def splitSep (xs : List Int) : List (List Int) :=
  let (acc, cur) := xs.foldl (fun (p : List (List Int) × List Int) x =>
    if x == sep then (p.1 ++ [p.2], []) else (p.1, p.2 ++ [x])) ([], [])
  acc ++ [cur]

def chunk (w : Nat) (xs : List Int) : List (List Int) :=
  if w == 0 then [] else (List.range (xs.length / w)).map fun i => (xs.drop (i*w)).take w

end NASim.Wire
