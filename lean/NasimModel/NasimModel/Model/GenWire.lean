import NasimModel.Model.GenPost
import NasimModel.Model.Wire
/-! Wire format of generator requests / generated scenarios (parsing and printing only). -/
namespace NASim.Gen
open NASim.Wire

def probSpecOf : List Wire.Tok → Option (ProbSpec × List Wire.Tok)
  | t :: rest =>
    match t.int with
    | 0 => some (.none, rest)
    | 1 => some (.mixed, rest)
    | 2 => match rest with
      | q :: rest' => some (.const q.rat, rest')
      | [] => Option.none
    | 3 => match rest with
      | k :: rest' =>
        let n := nat k.int
        some (.list ((rest'.take n).map Wire.Tok.rat), rest'.drop n)
      | [] => Option.none
    | _ => Option.none
  | [] => Option.none

def optI (i : Int) : Option Int := if i < 0 then Option.none else some i

def parseParams (ts : List Wire.Tok) : Option (Params × List Wire.Tok) :=
  match ts with
  | nh :: ns :: no :: np :: ne :: npe :: rs :: ru :: ec :: pc :: c1 :: c2 :: c3 :: c4 :: uni :: ah :: av
      :: lv :: restr :: rg :: bhv :: hdv :: sl :: b0 :: b1 :: rest =>
    match probSpecOf rest with
    | some (ep, rest) =>
      match probSpecOf rest with
      | some (pp, rest) =>
        some ({ numHosts := nat nh.int, numServices := nat ns.int, numOs := nat no.int,
                numProcesses := nat np.int, numExploits := optNat ne.int, numPrivescs := optNat npe.int,
                rSensitive := rs.int, rUser := ru.int, exploitCost := ec.int, exploitProbs := ep,
                privescCost := pc.int, privescProbs := pp, svcScanCost := c1.int, osScanCost := c2.int,
                subnetScanCost := c3.int, procScanCost := c4.int, uniform := b uni.int,
                alphaH := ah.rat, alphaV := av.rat, lambdaV := lv.rat, restrictiveness := nat restr.int,
                randomGoal := b rg.int, baseHostValue := bhv.int, hostDiscoveryValue := hdv.int,
                stepLimit := optI sl.int,
                bounds := if b0.int < 0 then Option.none else some (nat b0.int, nat b1.int) }, rest)
      | Option.none => Option.none
    | Option.none => Option.none
  | _ => Option.none

/-- decision tokens, e.g. `ch 3 1 2`, `ri 0 4 2`, `r 1/3`, `po 2`, `rs 2 1/2 1/4` -/
def parseToks : Nat → List String → Option (List Gen.Tok)
  | 0, _ => Option.none
  | _, [] => some []
  | fuel + 1, kind :: rest =>
    match kind with
    | "ch" => match rest with
      | k :: n :: r =>
        let n' := (n.toNat?).getD 0
        (parseToks fuel (r.drop n')).map fun ts =>
          Gen.Tok.ch ((k.toNat?).getD 0) ((r.take n').map fun s => (s.toNat?).getD 0) :: ts
      | _ => Option.none
    | "ri" => match rest with
      | a :: b' :: v :: r =>
        (parseToks fuel r).map fun ts => Gen.Tok.ri ((a.toInt?).getD 0) ((b'.toInt?).getD 0) ((v.toInt?).getD 0) :: ts
      | _ => Option.none
    | "r" => match rest with
      | q :: r => (parseToks fuel r).map fun ts => Gen.Tok.r (parseTok q).rat :: ts
      | _ => Option.none
    | "po" => match rest with
      | v :: r => (parseToks fuel r).map fun ts => Gen.Tok.po ((v.toNat?).getD 0) :: ts
      | _ => Option.none
    | "rs" => match rest with
      | n :: r =>
        let n' := (n.toNat?).getD 0
        (parseToks fuel (r.drop n')).map fun ts => Gen.Tok.rs ((r.take n').map fun s => (parseTok s).rat) :: ts
      | _ => Option.none
    | _ => Option.none

def joinS (xs : List String) : String := " ".intercalate xs

/-- the wire definition of a scenario, line by line — same text as `scenario_lines` of the harness -/
def scenarioLines (sc : Scenario) : List String :=
  let fl (l : List Bool) : String := joinS (toString l.length :: l.map (fun x => toString (bi x)))
  ["new", joinS ("subnets" :: sc.subnets.map toString), s!"bounds {sc.bounds.1} {sc.bounds.2}",
   s!"dims {sc.nOs} {sc.nSvc} {sc.nProc}",
   joinS ("topo" :: toString sc.topo.length :: sc.topo.flatten.map toString)]
  ++ sc.fw.map (fun e => joinS ("fw" :: toString e.1.1 :: toString e.1.2 :: e.2.map toString))
  ++ sc.hosts.map (fun h => joinS ["host", toString h.addr.1, toString h.addr.2, toString h.value,
                                   toString h.dvalue, fl h.os, fl h.svc, fl h.proc])
  ++ sc.hosts.flatMap (fun h => h.fw.map fun e =>
      joinS ("hfw" :: toString h.addr.1 :: toString h.addr.2 :: toString e.1.1 :: toString e.1.2 :: e.2.map toString))
  ++ sc.sens.map (fun e => s!"sens {e.1.1} {e.1.2} {e.2}")
  ++ sc.exploits.map (fun e => s!"expl {e.svc} {optOut e.os} {showRat e.prob} {e.cost} {e.access}")
  ++ sc.privescs.map (fun e => s!"priv {optOut e.proc} {optOut e.os} {showRat e.prob} {e.cost} {e.access}")
  ++ [s!"costs {sc.svcScanCost} {sc.osScanCost} {sc.subnetScanCost} {sc.procScanCost}"]
  ++ (match sc.stepLimit with | some k => [s!"limit {k}"] | Option.none => [])

/-- answer to `GEN <params> | <decisions>` -/
def genReply (toks : List String) : String × Option Scenario :=
  let pre := toks.takeWhile (· != "|")
  let post := (toks.dropWhile (· != "|")).drop 1
  match parseParams (pre.map parseTok), parseToks (post.length + 1) post with
  | some (p, _), some ds =>
    match generate p ds with
    | .ok (sc, rest) => (s!"ok {rest.length} ; " ++ " ; ".intercalate (scenarioLines sc), some sc)
    | .error e => ("error " ++ e, Option.none)
  | _, _ => ("bad-gen-request", Option.none)

/-- answer to `POST15 <params>`: the C15 checks on the *current* scenario (bit per check) -/
def postReply (sc : Scenario) (toks : List String) : String :=
  match parseParams (toks.map parseTok) with
  | some (p, _) => joinS ((genPostChecks p sc).map fun c => if c.2 then "1" else "0")
  | Option.none => "bad-params"

end NASim.Gen
