import NasimModel.Model.Env
/-!
# Attack plans by saturation (C16)

All stochastic actions succeed (`u = 0`).  Because the dynamics are monotone, sweeping the flat
action list and applying every action that succeeds and changes the state, until nothing changes,
reaches the goal whenever it is reachable; the plan found is a *witness* of solvability, checked
by replaying it (in the model by `runPlan`, on the real environment by the harness).
-/
namespace NASim

/-- one sweep over the indexed action list: apply what succeeds and makes progress -/
def sweep (n : Net) : List (Action × Nat) → State → List Nat → State × List Nat
  | [], s, plan => (s, plan)
  | (a, i) :: rest, s, plan =>
    let p := perform n s a 0
    if p.2.1.success && p.1 != s then sweep n rest p.1 (plan ++ [i]) else sweep n rest s plan

/-- repeat sweeps until the goal is reached, nothing changes, or the round budget is used up -/
def saturate (n : Net) (acts : List (Action × Nat)) : Nat → State → List Nat → State × List Nat
  | 0, s, plan => (s, plan)
  | k + 1, s, plan =>
    if goal n s then (s, plan) else
    let (s', plan') := sweep n acts s plan
    if s' == s then (s, plan) else saturate n acts k s' plan'

/-- a plan (flat action indices) for the scenario, found by saturation from the initial state -/
def findPlan (sc : Scenario) : List Nat :=
  (saturate sc.net (flatActions sc).zipIdx (3 * sc.hosts.length + 3) sc.init []).2

/-- replay a plan with every draw succeeding -/
def runPlan (sc : Scenario) (plan : List Nat) : State :=
  plan.foldl (fun s i => (perform sc.net s ((flatActions sc).getD i noopAction) 0).1) sc.init

/-- the scenario is solved by the plan -/
def solvedBy (sc : Scenario) (plan : List Nat) : Bool := goal sc.net (runPlan sc plan)

end NASim
