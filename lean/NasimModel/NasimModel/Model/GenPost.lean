import NasimModel.Model.Gen
/-!
# C15 as a decidable predicate on (parameters, scenario)

`genPostChecks p sc` lists the postconditions of the generator named in the property, each as a
Boolean.  `Props/C15` proves them for every scenario the model generator returns; the driver
evaluates the same checks on the scenario the *implementation* returned.
-/
namespace NASim.Gen

def connB (sc : Scenario) (a b : Nat) : Bool := ((sc.topo.getD a []).getD b 0) == 1

def countTrue (l : List Bool) : Nat := (l.filter id).length

def hostOk (p : Params) (h : HostDef) : Bool :=
  h.os.length == p.numOs && h.svc.length == p.numServices && h.proc.length == p.numProcesses
  && countTrue h.os == 1 && decide (1 ≤ countTrue h.svc) && decide (1 ≤ countTrue h.proc)

def exploitOk (p : Params) (e : ExploitDef) : Bool :=
  decide (e.svc < p.numServices)
  && (match e.os with | some o => decide (o < p.numOs) | Option.none => true)
  && e.cost == p.exploitCost && decide (0 < e.prob) && decide (e.prob ≤ 1)
  && (e.access == 1 || e.access == 2)

def privescOk (p : Params) (e : PrivescDef) : Bool :=
  (match e.proc with | some pr => decide (pr < p.numProcesses) | Option.none => false)
  && (match e.os with | some o => decide (o < p.numOs) | Option.none => true)
  && e.cost == p.privescCost && decide (0 < e.prob) && decide (e.prob ≤ 1) && e.access == 2

def pairwiseDistinct {α} [BEq α] : List α → Bool
  | [] => true
  | x :: xs => !xs.contains x && pairwiseDistinct xs

def fwRuleOk (p : Params) (sc : Scenario) (e : (Nat × Nat) × List Nat) : Bool :=
  let (s, d) := e.1
  s != d && connB sc s d && e.2.all (fun x => decide (x < p.numServices)) && pairwiseDistinct e.2
  && (if decide (2 < s) && decide (2 < d) then e.2.length == p.numServices
      else if d == 0 then true
      else decide (1 ≤ e.2.length) && decide (e.2.length ≤ p.restrictiveness))

def genPostChecks (p : Params) (sc : Scenario) : List (String × Bool) :=
  let ns := sc.subnets.length
  [ ("number of hosts", sc.hosts.length == p.numHosts && (sc.subnets.drop 1).foldl (· + ·) 0 == p.numHosts),
    ("subnet sizes positive, at least one user subnet",
      sc.subnets.all (fun x => decide (0 < x)) && decide (4 ≤ ns) && sc.subnets.head? == some 1),
    ("host addresses are exactly the network's addresses, in order",
      sc.hosts.map (·.addr) == allAddrs sc.subnets),
    ("numbers of OS / services / processes",
      sc.nOs == p.numOs && sc.nSvc == p.numServices && sc.nProc == p.numProcesses),
    ("numbers of exploits / escalations",
      sc.exploits.length == p.nExploits && sc.privescs.length == p.nPrivescs),
    ("topology square, symmetric, self-connected",
      sc.topo.length == ns && sc.topo.all (fun r => r.length == ns && r.all (fun x => x == 0 || x == 1))
      && (List.range ns).all (fun a => connB sc a a && (List.range ns).all fun b => connB sc a b == connB sc b a)),
    ("only the DMZ subnet is public",
      (List.range ns).all fun s => connB sc s 0 == (s == 0 || s == 1)),
    ("every host runs exactly one OS, at least one service and one process",
      sc.hosts.all (hostOk p)),
    ("exploit definitions", sc.exploits.all (exploitOk p)
      && pairwiseDistinct (sc.exploits.map fun e => (e.svc, e.os))),
    ("escalation definitions", sc.privescs.all (privescOk p)
      && pairwiseDistinct (sc.privescs.map fun e => (e.proc, e.os))),
    ("sensitive hosts",
      match sc.sens with
      | [(a1, v1), (a2, v2)] =>
        a1 == (2, 0) && v1 == p.rSensitive && v2 == p.rUser && decide (3 ≤ a2.1) && decide (a2.1 < ns)
        && decide (a2.2 < sc.subnets.getD a2.1 0)
        && (p.randomGoal || a2 == (ns - 1, sc.subnets.getLastD 0 - 1))
      | _ => false),
    ("host values and discovery values",
      sc.hosts.all fun h => h.value == (sc.sens.lookup h.addr).getD p.baseHostValue
        && h.dvalue == p.hostDiscoveryValue && h.fw.isEmpty),
    ("a firewall rule in each direction for exactly the connected pairs",
      sc.fw.map (·.1) == (fwPairs ns).filter fun (s, d) => s != d && connB sc s d),
    ("firewall rules: defined services, open between user subnets, 1..restrictiveness across zones",
      sc.fw.all (fwRuleOk p sc)),
    ("scan costs, step limit, address bounds",
      sc.svcScanCost == p.svcScanCost && sc.osScanCost == p.osScanCost
      && sc.subnetScanCost == p.subnetScanCost && sc.procScanCost == p.procScanCost
      && sc.stepLimit == p.stepLimit
      && decide (ns ≤ sc.bounds.1) && decide (sc.subnets.foldl max 0 ≤ sc.bounds.2)
      && (match p.bounds with | some b => sc.bounds == b | Option.none => sc.bounds == (ns, sc.subnets.foldl max 0))) ]

def genPost (p : Params) (sc : Scenario) : Bool := (genPostChecks p sc).all (·.2)

end NASim.Gen
