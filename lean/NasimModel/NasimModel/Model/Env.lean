import NasimModel.Model.Obs
/-!
# Scenario, action spaces and the environment wrapper

Model of `nasim/scenarios/scenario.py` (the parts the environment reads),
`nasim/envs/action.py` (`load_action_list`, `FlatActionSpace.get_action`,
`ParameterisedActionSpace.get_action`), and `nasim/envs/environment.py`
(`reset`, `step`, `generative_step`, `goal_reached`, `get_action_mask`,
`Observation.get_space_bounds`).

OS / service / process names are represented by their index in the scenario's lists.
-/
namespace NASim

structure ExploitDef where
  svc : Nat
  os : Option Nat
  prob : Rat
  cost : Int
  access : Nat
deriving Repr, Inhabited, DecidableEq

structure PrivescDef where
  proc : Option Nat
  os : Option Nat
  prob : Rat
  cost : Int
  access : Nat
deriving Repr, Inhabited, DecidableEq

/-- `Host` (scenario data for one host) -/
structure HostDef where
  addr : Addr
  os : List Bool
  svc : List Bool
  proc : List Bool
  value : Int
  dvalue : Int := 0
  fw : List (Addr × List Nat) := []
deriving Repr, Inhabited, DecidableEq

structure Scenario where
  subnets : List Nat                 -- including the internet subnet at index 0
  topo : List (List Int)
  nOs : Nat
  nSvc : Nat
  nProc : Nat
  sens : List (Addr × Int)
  exploits : List ExploitDef
  privescs : List PrivescDef
  svcScanCost : Int
  osScanCost : Int
  subnetScanCost : Int
  procScanCost : Int
  fw : List ((Nat × Nat) × List Nat)
  hosts : List HostDef               -- in `address_space` order
  stepLimit : Option Int
  bounds : Nat × Nat                 -- address_space_bounds
deriving Repr, Inhabited, DecidableEq

def Scenario.net (sc : Scenario) : Net :=
  { subnets := sc.subnets, topo := sc.topo, fw := sc.fw,
    hostFw := sc.hosts.map (fun h => (h.addr, h.fw)),
    addrs := sc.hosts.map (·.addr), sens := sc.sens }

def Scenario.layout (sc : Scenario) : Layout :=
  { b0 := sc.bounds.1, b1 := sc.bounds.2, nOs := sc.nOs, nSvc := sc.nSvc, nProc := sc.nProc }

/-- the rows `State.tensorize` writes (before `Network.reset`): hosts as the scenario defines them -/
def Scenario.cfgRows (sc : Scenario) : State :=
  sc.hosts.map fun h =>
    { addr := h.addr, comp := false, reach := false, disc := false, value := h.value,
      dvalue := h.dvalue, access := 0, os := h.os, svc := h.svc, proc := h.proc }

/-- `State.generate_initial_state` -/
def Scenario.init (sc : Scenario) : State := reset sc.net sc.cfgRows

/-! ### flat action space (`load_action_list`) -/

def scanAction (k : Kind) (t : Addr) (cost : Int) : Action :=
  { kind := k, target := t, cost := cost, prob := 1, req := 1 }

def exploitAction (t : Addr) (e : ExploitDef) : Action :=
  { kind := .exploit, target := t, cost := e.cost, prob := e.prob, req := 1, svc := e.svc,
    os := e.os, grant := e.access }

def privescAction (t : Addr) (p : PrivescDef) : Action :=
  { kind := .privesc, target := t, cost := p.cost, prob := p.prob, req := 1, proc := p.proc,
    os := p.os, grant := p.access }

def hostActions (sc : Scenario) (t : Addr) : List Action :=
  [scanAction .svcScan t sc.svcScanCost, scanAction .osScan t sc.osScanCost,
   scanAction .subnetScan t sc.subnetScanCost, scanAction .procScan t sc.procScanCost]
  ++ sc.exploits.map (exploitAction t) ++ sc.privescs.map (privescAction t)

def flatActions (sc : Scenario) : List Action :=
  (sc.hosts.map (·.addr)).flatMap (hostActions sc)

/-- `NoOp()` : target (1, 0), cost 0, prob 1, required access NONE -/
def noopAction : Action := { kind := .noop, target := (1, 0), cost := 0, prob := 1, req := 0 }

/-- `Scenario.get_action_space_size` -/
def Scenario.actionSpaceSize (sc : Scenario) : Nat :=
  sc.hosts.length * (sc.exploits.length + sc.privescs.length + 4)

/-! ### parameterised action space -/

/-- `nvec` of `ParameterisedActionSpace` -/
def paramNvec (sc : Scenario) : List Nat :=
  [6, sc.subnets.length - 1, sc.subnets.foldl max 0, sc.nOs + 1, sc.nSvc, sc.nProc]

/-- first exploit definition with the given service and OS (`Scenario.exploit_map`: first wins) -/
def exploitFor (sc : Scenario) (svc : Nat) (os : Option Nat) : Option ExploitDef :=
  sc.exploits.find? fun e => e.svc == svc && e.os == os

def privescFor (sc : Scenario) (proc : Nat) (os : Option Nat) : Option PrivescDef :=
  sc.privescs.find? fun p => p.proc == some proc && p.os == os

/-- `ParameterisedActionSpace.get_action` on a vector below `nvec` -/
def decodeParam (sc : Scenario) (v : List Nat) : Action :=
  let ty := v.getD 0 0
  let subnet := v.getD 1 0 + 1
  let host := v.getD 2 0 % sc.subnets.getD subnet 1
  let t : Addr := (subnet, host)
  let os : Option Nat := if v.getD 3 0 == 0 then none else some (v.getD 3 0 - 1)
  match ty with
  | 0 => match exploitFor sc (v.getD 4 0) os with
         | some e => exploitAction t e
         | none => noopAction
  | 1 => match privescFor sc (v.getD 5 0) os with
         | some p => privescAction t p
         | none => noopAction
  | 2 => scanAction .svcScan t sc.svcScanCost
  | 3 => scanAction .osScan t sc.osScanCost
  | 4 => scanAction .subnetScan t sc.subnetScanCost
  | _ => scanAction .procScan t sc.procScanCost

/-- `NASimEnv.get_action_mask` -/
def actionMask (sc : Scenario) (s : State) : List Bool :=
  (flatActions sc).map fun a => (s.get a.target).disc

/-! ### observation-space bounds (`Observation.get_space_bounds`) -/

def listMin (l : List Int) (d : Int) : Int := l.foldl min d
def listMax (l : List Int) (d : Int) : Int := l.foldl max d

/-- lower / upper bound of the Box space, in units of 1/64 -/
def obsLow (sc : Scenario) : Int :=
  listMin (sc.hosts.map (·.value) ++ sc.hosts.map (·.dvalue)) 0
def obsHigh (sc : Scenario) : Int :=
  listMax (sc.hosts.map (·.value) ++ sc.hosts.map (·.dvalue)
    ++ [64 * 2, 64 * (sc.bounds.1 : Int), 64 * (sc.bounds.2 : Int)]) 64

/-! ### environment -/

structure Env where
  sc : Scenario
  fullyObs : Bool
  cur : State
  lastObs : List (List Int)
  steps : Nat
deriving Repr, Inhabited

structure StepOut where
  next : State
  obs : List (List Int)
  reward : Int
  done : Bool
  res : Result
  draws : Nat
deriving Repr, Inhabited

/-- `NASimEnv.generative_step` (pure) -/
def genStep (sc : Scenario) (fullyObs : Bool) (s : State) (a : Action) (u : Rat) : StepOut :=
  let p := perform sc.net s a u
  { next := p.1, obs := observe sc.layout p.1 a p.2.1 fullyObs,
    reward := p.2.1.value - a.cost, done := goal sc.net p.1, res := p.2.1, draws := p.2.2 }

/-- `NASimEnv.__init__` followed by its `reset()` -/
def Env.make (sc : Scenario) (fullyObs : Bool) : Env :=
  { sc, fullyObs, cur := sc.init, lastObs := initialObs sc.layout sc.init fullyObs, steps := 0 }

/-- `NASimEnv.reset` -/
def Env.reset (e : Env) : Env :=
  let s := NASim.reset e.sc.net e.cur
  { e with cur := s, lastObs := initialObs e.sc.layout s e.fullyObs, steps := 0 }

/-- step-limit flag after the counter has been incremented -/
def truncated (sc : Scenario) (steps : Nat) : Bool :=
  match sc.stepLimit with
  | none => false
  | some l => decide (l ≤ (steps : Int))

/-- `NASimEnv.step`: generative step from the current state, install, count, step-limit flag -/
def Env.step (e : Env) (a : Action) (u : Rat) : Env × StepOut × Bool :=
  let o := genStep e.sc e.fullyObs e.cur a u
  ({ e with cur := o.next, lastObs := o.obs, steps := e.steps + 1 }, o,
   truncated e.sc (e.steps + 1))

/-- operations a user can perform on a live environment -/
inductive Op
  | reset
  | step (a : Action) (u : Rat)
  | genStep (s : State) (a : Action) (u : Rat)   -- pure: returns a value, leaves the env alone
deriving Repr, Inhabited

def Env.apply (e : Env) : Op → Env
  | .reset => e.reset
  | .step a u => (e.step a u).1
  | .genStep _ _ _ => e

/-- the environment after any interleaving of operations -/
def Env.run (e : Env) (ops : List Op) : Env := ops.foldl Env.apply e

end NASim
