import NasimModel.Model.PyRtAct
import NasimModel.Model.Bound
/-!
# Run-time vocabulary of the source translator, score-bound world

`harness/pysrc_bound.py` prints `get_minimal_hops_to_goal`, the totals of `Network` and
`NASimEnv.get_score_upper_bound` as Lean definitions (`Generated/SrcBound.lean`).  The distance matrix is read and
written through the model's `dget` / `dset` (`d[i][j]`, `d[i][j] = v`).
-/
namespace NASim.PyRt

/-- `np.iinfo(np.int16).max` -/
def int16Max : Nat := 32767
/-- `np.full((r, c), v)` -/
def full2 (r c v : Nat) : List (List Nat) := List.replicate r (List.replicate c v)
/-- `itertools.permutations(l)` as a collection (its order does not matter to a minimum) -/
def permutations (l : List Nat) : List (List Nat) := permsOf l

/-- a float that may be `math.inf` / `-math.inf`; finite values are integers in units of 1/64 -/
inductive Ext | negInf | fin (v : Int) | posInf
deriving Repr, DecidableEq, Inhabited

/-- Python's `min` / `max` on two such numbers -/
def Ext.min : Ext → Ext → Ext
  | .negInf, _ => .negInf
  | _, .negInf => .negInf
  | .posInf, b => b
  | a, .posInf => a
  | .fin a, .fin b => .fin (Min.min a b)
def Ext.max : Ext → Ext → Ext
  | .posInf, _ => .posInf
  | _, .posInf => .posInf
  | .negInf, b => b
  | a, .negInf => a
  | .fin a, .fin b => .fin (Max.max a b)

end NASim.PyRt

namespace NASim.PyRt
/-- `math.ceil(a / b)` for naturals (the true division is exact enough for every size a double represents) -/
def ceilDiv (a b : Nat) : Nat := (a + b - 1) / b
end NASim.PyRt

namespace NASim.PyRt
/-- `np.zeros((r, c))` as an integer matrix -/
def zerosI (r c : Nat) : List (List Int) := List.replicate r (List.replicate c 0)
/-- `t[i][j] = 1` -/
def wr (t : List (List Int)) (i j : Nat) : List (List Int) := t.set i ((t.getD i []).set j 1)
end NASim.PyRt

namespace NASim.PyRt
/-- `flags[name]` on a name → flag dictionary (a flag list, names are indices) where the name may be `None`: `None` is
not a key (`KeyError`); the generator only asks behind an `is None` test or for a name its own definitions always carry -/
def flagAt (l : List Bool) (k : Option Nat) : Bool := match k with | some i => l.getD i false | none => false
end NASim.PyRt
