import NasimModel.Model.Loader
import NasimModel.Model.Env
/-!
# From a loaded document to the scenario the environment runs

`Loaded.toScenario` is the model of what `Scenario.__init__`, `HostVector.vectorize` and
`load_action_list` make of the loader's dictionary: names become indices into the OS / service /
process lists (`os_idx_map`, `service_idx_map`, `process_idx_map`), values and costs are the
loader's numbers (here in units of 1/64; a number that is not a multiple of 1/64 is outside the
model and yields `none`), hosts are in `host_configurations` order (`address_space`), the
address-space bounds default to `(len(subnets), max(subnets))`, discovery values to 0.

With it the chain  YAML document → `load` → `toScenario`  ends in the same `Scenario` type the
dynamics theorems are about; `Generated/ShippedDocs.lean` checks in the kernel that for every
shipped benchmark file this chain yields exactly the scenario the repository's own loader builds.
-/
namespace NASim.Load
open NASim

/-- a number as an integer count of 1/64 -/
def units (q : Rat) : Option Int := if (q * 64).den = 1 then some (q * 64).num else none

/-- optional OS / process name: `None` stays `None`, a name becomes its index -/
def optIdx (names : List Y) (y : Y) : Option (Option Nat) :=
  match y with
  | .null => some none
  | _ => (idxOf y names).map some

def insertNat (x : Nat) : List Nat → List Nat
  | [] => [x]
  | y :: ys => if x < y then x :: y :: ys else y :: insertNat x ys
def sortNat (l : List Nat) : List Nat := l.foldl (fun acc x => insertNat x acc) []

def svcIdxs (services : List Y) (l : List Y) : Option (List Nat) := allSome (l.map fun y => idxOf y services)

def ExplL.toDef (services os : List Y) (e : ExplL) : Option ExploitDef := do
  let svc ← idxOf e.service services
  let o ← optIdx os e.os
  let cost ← units e.cost
  pure { svc, os := o, prob := e.prob, cost, access := e.access }

def PrivL.toDef (processes os : List Y) (e : PrivL) : Option PrivescDef := do
  let pr ← optIdx processes e.process
  let o ← optIdx os e.os
  let cost ← units e.cost
  pure { proc := pr, os := o, prob := e.prob, cost, access := e.access }

def HostL.toDef (services : List Y) (h : HostL) : Option HostDef := do
  let value ← units h.value
  let fw ← allSome (h.fw.map fun e => (svcIdxs services e.2).map fun l => (e.1, l))
  pure { addr := h.addr, os := h.os, svc := h.services, proc := h.processes, value, dvalue := 0, fw }

def Loaded.toScenario (L : Loaded) : Option Scenario := do
  let sens ← allSome (L.sensitive.map fun e => (units e.2).map fun v => (e.1, v))
  let exploits ← allSome (L.exploits.map (ExplL.toDef L.services L.os))
  let privescs ← allSome (L.privescs.map (PrivL.toDef L.processes L.os))
  let fw ← allSome (L.firewall.map fun e => (svcIdxs L.services e.2).map fun l => (e.1, sortNat l))
  let hosts ← allSome (L.hosts.map (HostL.toDef L.services))
  let c1 ← units L.svcScanCost
  let c2 ← units L.osScanCost
  let c3 ← units L.subnetScanCost
  let c4 ← units L.procScanCost
  pure { subnets := L.subnets, topo := L.topology, nOs := L.os.length, nSvc := L.services.length,
         nProc := L.processes.length, sens, exploits, privescs, svcScanCost := c1, osScanCost := c2,
         subnetScanCost := c3, procScanCost := c4, fw, hosts, stepLimit := L.stepLimit,
         bounds := (L.subnets.length, L.subnets.foldl max 0) }

/-- document → scenario -/
def loadScenario (doc : Y) : Option Scenario :=
  match load doc with
  | .ok L => L.toScenario
  | .error _ => none

end NASim.Load
