import NasimModel.Model.Loader
import NasimModel.Model.Wire
/-!
Wire format of YAML documents and of loaded scenarios (parsing / printing only).

Document tokens, prefix notation: `N` null, `T`/`F` bool, `I<int>`, `Q<n/d>` float, `S<hex of utf8>`
string, `L<k>` list of k items, `M<k>` map of k key/value pairs.
-/
namespace NASim.Load
open NASim.Wire

def hexVal (c : Char) : Nat :=
  if c.isDigit then c.toNat - '0'.toNat
  else if 'a' ≤ c ∧ c ≤ 'f' then c.toNat - 'a'.toNat + 10
  else 0

def unhex (s : String) : String :=
  let rec go : List Char → List UInt8
    | a :: b :: rest => (UInt8.ofNat (hexVal a * 16 + hexVal b)) :: go rest
    | _ => []
  (String.fromUTF8? (ByteArray.mk (go s.toList).toArray)).getD ""

def hexDigit (n : Nat) : Char := if n < 10 then Char.ofNat (n + 48) else Char.ofNat (n - 10 + 97)

def hex (s : String) : String :=
  String.ofList (s.toUTF8.toList.flatMap fun b => [hexDigit (b.toNat / 16), hexDigit (b.toNat % 16)])

/-- parse one value from a token stream (fuel = number of tokens) -/
def parseY : Nat → List String → Option (Y × List String)
  | 0, _ => none
  | fuel + 1, tok :: rest =>
    let body := (tok.drop 1).toString
    match tok.front with
    | 'N' => some (.null, rest)
    | 'T' => some (.bool true, rest)
    | 'F' => some (.bool false, rest)
    | 'I' => body.toInt?.map fun i => (.int i, rest)
    | 'Q' => match parseTok body with
             | .q v => some (.num v, rest)
             | .i v => some (.num (v : Rat), rest)
             | .bad => none
    | 'S' => some (.str (unhex body), rest)
    | 'L' =>
      let rec items : Nat → Nat → List String → Option (List Y × List String)
        | _, 0, r => some ([], r)
        | 0, _, _ => none
        | f + 1, k + 1, r => match parseY fuel r with
          | some (y, r') => (items f k r').map fun (ys, r'') => (y :: ys, r'')
          | none => none
      body.toNat?.bind fun k => (items (fuel + 1) k rest).map fun (ys, r) => (.list ys, r)
    | 'M' =>
      let rec pairs : Nat → Nat → List String → Option (List (Y × Y) × List String)
        | _, 0, r => some ([], r)
        | 0, _, _ => none
        | f + 1, k + 1, r => match parseY fuel r with
          | some (a, r') => match parseY fuel r' with
            | some (b, r'') => (pairs f k r'').map fun (ps, r3) => ((a, b) :: ps, r3)
            | none => none
          | none => none
      body.toNat?.bind fun k => (pairs (fuel + 1) k rest).map fun (ps, r) => (.map ps, r)
    | _ => none
  | _, [] => none

def showY : Y → String
  | .null => "N"
  | .bool true => "T"
  | .bool false => "F"
  | .int i => s!"I{i}"
  | .num q => s!"Q{showRat q}"
  | .str s => s!"S{hex s}"
  | .list _ => "L?"
  | .map _ => "M?"

def bits (l : List Bool) : String := String.ofList (l.map fun b => if b then '1' else '0')

/-- canonical one-line dump of a loaded scenario -/
def dump (d : Loaded) : String :=
  let sp := " "
  let names (l : List Y) := s!"{l.length} " ++ sp.intercalate (l.map showY)
  let fwEntry (e : (Nat × Nat) × List Y) := s!"{e.1.1} {e.1.2} {names e.2}"
  sp.intercalate [
    "subnets", toString d.subnets.length, sp.intercalate (d.subnets.map toString),
    "topo", sp.intercalate (d.topology.map fun r => sp.intercalate (r.map toString)),
    "os", names d.os, "services", names d.services, "processes", names d.processes,
    "sens", toString d.sensitive.length,
      sp.intercalate (d.sensitive.map fun e => s!"{e.1.1} {e.1.2} {showRat e.2}"),
    "exploits", toString d.exploits.length,
      sp.intercalate (d.exploits.map fun e =>
        s!"{showY e.name} {showY e.service} {showY e.os} {showRat e.prob} {showRat e.cost} {e.access}"),
    "privescs", toString d.privescs.length,
      sp.intercalate (d.privescs.map fun e =>
        s!"{showY e.name} {showY e.process} {showY e.os} {showRat e.prob} {showRat e.cost} {e.access}"),
    "costs", showRat d.svcScanCost, showRat d.osScanCost, showRat d.subnetScanCost, showRat d.procScanCost,
    "fw", toString d.firewall.length, sp.intercalate (d.firewall.map fwEntry),
    "hosts", toString d.hosts.length,
      sp.intercalate (d.hosts.map fun h =>
        s!"{h.addr.1} {h.addr.2} {bits h.os}. {bits h.services}. {bits h.processes}. {showRat h.value} "
          ++ s!"{h.fw.length} " ++ sp.intercalate (h.fw.map fwEntry)),
    "limit", match d.stepLimit with | none => "N" | some i => toString i ]

def errName : Err → String
  | .notMap => "notMap" | .sections => "sections" | .missing k => s!"missing:{k}" | .subnets => "subnets"
  | .topology => "topology" | .os => "os" | .services => "services" | .processes => "processes"
  | .sensitive => "sensitive" | .exploit => "exploit" | .privesc => "privesc" | .scanCost => "scanCost"
  | .hostConfigs => "hostConfigs" | .hostConfig => "hostConfig" | .firewall => "firewall"
  | .hosts => "hosts" | .stepLimit => "stepLimit" | .outOfModel => "outOfModel"

/-- answer to a `DOC` request -/
def docReply (toks : List String) : String :=
  match parseY (toks.length + 1) toks with
  | some (doc, []) =>
    match load doc with
    | .ok d => "ok " ++ dump d
    | .error e => "reject " ++ errName e
  | _ => "bad-doc"

end NASim.Load
