import NasimModel.Model.Env
/-!
# Several environments in one process (C19)

In the implementation the layout of `HostVector` (index constants, name → index maps) is stored
in *class attributes*: one copy per process, overwritten by every environment constructor
(`State.generate_initial_state → HostVector.reset/_initialize`).  Environments keep their state
as raw tensors; every access decodes / encodes through the global layout.

`World` models exactly that: a global layout and a list of environments that store raw rows.
`Solos` is the specification: a list of ordinary environments that cannot influence each other.
-/
namespace NASim

structure RawEnv where
  sc : Scenario
  fullyObs : Bool
  raw : List (List Int)
  lastObs : List (List Int)
  steps : Nat
deriving Repr, Inhabited

structure World where
  layout : Option Layout := none
  envs : List RawEnv := []
deriving Repr, Inhabited

inductive WOp
  | construct (sc : Scenario) (fullyObs : Bool)
  | reset (i : Nat)
  | step (i : Nat) (a : Action) (u : Rat)
deriving Repr, Inhabited

def encodeState (L : Layout) (s : State) : List (List Int) := s.map (vectorize L)
def decodeState (L : Layout) (raw : List (List Int)) : State := raw.map (decodeRow L)

def modifyAt {α} (l : List α) (i : Nat) (f : α → α) : List α :=
  l.zipIdx.map fun (x, j) => if j == i then f x else x

/-- the constructor writes the scenario's layout into the class attributes, then builds and resets
the state with it -/
def World.construct (w : World) (sc : Scenario) (fo : Bool) : World :=
  let L := sc.layout
  { layout := some L,
    envs := w.envs ++ [{ sc, fullyObs := fo, raw := encodeState L sc.init,
                         lastObs := initialObs L sc.init fo, steps := 0 }] }

/-- every operation on environment `i` reads and writes its tensor through the *global* layout -/
def World.apply (w : World) : WOp → World
  | .construct sc fo => w.construct sc fo
  | .reset i =>
    match w.layout with
    | none => w
    | some L => { w with envs := modifyAt w.envs i fun e =>
        let s := NASim.reset e.sc.net (decodeState L e.raw)
        { e with raw := encodeState L s, lastObs := initialObs L s e.fullyObs, steps := 0 } }
  | .step i a u =>
    match w.layout with
    | none => w
    | some L => { w with envs := modifyAt w.envs i fun e =>
        let p := perform e.sc.net (decodeState L e.raw) a u
        { e with raw := encodeState L p.1, lastObs := observe L p.1 a p.2.1 e.fullyObs,
                 steps := e.steps + 1 } }

def World.run (w : World) (ops : List WOp) : World := ops.foldl World.apply w

/-! ### the specification: independent environments -/

def soloApply (es : List Env) : WOp → List Env
  | .construct sc fo => es ++ [Env.make sc fo]
  | .reset i => modifyAt es i Env.reset
  | .step i a u => modifyAt es i fun e => (e.step a u).1

def soloRun (es : List Env) (ops : List WOp) : List Env := ops.foldl soloApply es

/-- how a raw environment looks when its tensor is decoded with layout `L` -/
def RawEnv.view (L : Layout) (e : RawEnv) : Env :=
  { sc := e.sc, fullyObs := e.fullyObs, cur := decodeState L e.raw, lastObs := e.lastObs, steps := e.steps }

end NASim
