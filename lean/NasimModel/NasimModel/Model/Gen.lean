import NasimModel.Model.Env
/-!
# The scenario generator (`nasim/scenarios/generator.py`) as a function of its random decisions

`generate p : G Scenario` runs over an explicit stream of recorded decisions (`Tok`): every call
the Python code makes to `np.random.{choice, randint, rand, random_sample, poisson}` consumes one
token; kind and population size of every token are checked, so a structurally different call
sequence is an error, not a silent divergence.  Loops that retry (`_generate_exploits`,
`_generate_privescs`, `_update_host_to_vulnerable`) are structural recursions on fuel = length of
the stream, so the *model* trivially terminates; whether the real loop can get stuck is the
separate progress question (Props/C15).

Values (`r_sensitive`, costs, …) are integers in units of 1/64; probabilities and uniform draws are
exact rationals.
-/
namespace NASim.Gen

inductive Tok
  | ch (k : Nat) (idx : List Nat)      -- np.random.choice over a population of size k; indices drawn
  | ri (lo hi v : Int)                 -- randint(lo, hi) = v
  | r (u : Rat)                        -- rand() = u
  | po (v : Nat)                       -- poisson(lam) = v
  | rs (vals : List Rat)               -- random_sample(n)
deriving Repr, Inhabited

/-- state-and-failure monad over the decision stream -/
def G (α : Type) := List Tok → Except String (α × List Tok)

instance : Monad G where
  pure a := fun s => .ok (a, s)
  bind x f := fun s => match x s with
    | .error e => .error e
    | .ok (a, s') => f a s'

def fail {α} (msg : String) : G α := fun _ => .error msg

def pop : G Tok := fun s => match s with
  | [] => .error "stream exhausted"
  | t :: ts => .ok (t, ts)

/-- `np.random.choice(population of size k)` -/
def choice1 (k : Nat) : G Nat := do
  match (← pop) with
  | .ch k' [i] => if k' = k ∧ i < k then pure i else fail "choice: population size"
  | _ => fail "expected choice"

/-- `np.random.choice(population of size k, n)` -/
def choiceN (k n : Nat) : G (List Nat) := do
  match (← pop) with
  | .ch k' idx => if k' = k ∧ idx.length = n ∧ idx.all (· < k) then pure idx
                  else fail "choice: size"
  | _ => fail "expected choice (sized)"

def randint (lo hi : Int) : G Int := do
  match (← pop) with
  | .ri lo' hi' v => if lo' = lo ∧ hi' = hi ∧ lo ≤ v ∧ v < hi then pure v else fail "randint: bounds"
  | _ => fail "expected randint"

def rand : G Rat := do
  match (← pop) with
  | .r u => if 0 ≤ u ∧ u < 1 then pure u else fail "rand: range"
  | _ => fail "expected rand"

def poisson : G Nat := do
  match (← pop) with
  | .po v => pure v
  | _ => fail "expected poisson"

def randomSample (n : Nat) : G (List Rat) := do
  match (← pop) with
  | .rs vals => if vals.length = n ∧ vals.all (fun q => decide (0 ≤ q ∧ q < 1)) then pure vals
                else fail "random_sample: size / range"
  | _ => fail "expected random_sample"

inductive ProbSpec | none | mixed | const (p : Rat) | list (ps : List Rat)
deriving Repr, Inhabited

structure Params where
  numHosts : Nat
  numServices : Nat
  numOs : Nat := 2
  numProcesses : Nat := 2
  numExploits : Option Nat := Option.none
  numPrivescs : Option Nat := Option.none
  rSensitive : Int
  rUser : Int
  exploitCost : Int
  exploitProbs : ProbSpec
  privescCost : Int
  privescProbs : ProbSpec
  svcScanCost : Int
  osScanCost : Int
  subnetScanCost : Int
  procScanCost : Int
  uniform : Bool
  alphaH : Rat
  alphaV : Rat
  lambdaV : Rat
  restrictiveness : Nat
  randomGoal : Bool
  baseHostValue : Int
  hostDiscoveryValue : Int
  stepLimit : Option Int
  bounds : Option (Nat × Nat)
  -- the generated constants (T1): HOST_ASSIGNMENT_PERIOD, USER_SUBNET_SIZE, VUL_RETRIES
  period : Nat := 40
  userSize : Nat := 5
  vulRetries : Nat := 5
deriving Repr, Inhabited

def Params.nExploits (p : Params) : Nat := p.numExploits.getD p.numServices
def Params.nPrivescs (p : Params) : Nat := p.numPrivescs.getD p.numProcesses

/-- the assertions at the top of `generate` -/
def Params.valid (p : Params) : Bool :=
  decide (0 < p.numServices) && decide (2 < p.numHosts) && decide (0 < p.numProcesses)
  && (match p.numExploits with | some n => decide (0 < n) | Option.none => true)
  && (match p.numPrivescs with | some n => decide (0 < n) | Option.none => true)
  && decide (0 < p.numOs) && decide (0 < p.rSensitive) && decide (0 < p.rUser)
  && decide (0 < p.alphaH) && decide (0 < p.alphaV) && decide (0 < p.lambdaV)
  && decide (0 < p.restrictiveness)

/-! ### subnets and topology (deterministic) -/

/-- `_generate_subnets` -/
def genSubnets (period usize : Nat) (n : Nat) : List Nat :=
  let dmz := (n + period - 1) / period
  let sens := (n + period) / (period + 1)
  let user := n - dmz - sens
  [1, dmz, sens] ++ List.replicate (user / usize) usize ++ (if user % usize != 0 then [user % usize] else [])

/-- closed form of `_generate_topology`: internet–DMZ, the DMZ / sensitive / first-user triangle,
and the binary tree of user subnets rooted at subnet 3 -/
def adj (r c : Nat) : Bool :=
  if r < 4 ∧ c < 4 then !((r = 0 ∧ c > 1) ∨ (r > 1 ∧ c = 0))
  else if r < 3 ∨ c < 3 then false
  else r = c ∨ (r > 3 ∧ c = (r - 3 - 1) / 2 + 3) ∨ c = 2 * (r - 3) + 1 + 3 ∨ c = 2 * (r - 3) + 2 + 3

def genTopo (ns : Nat) : List (List Int) :=
  (List.range ns).map fun r => (List.range ns).map fun c => if adj r c then 1 else 0

/-- `_generate_address_space_bounds` -/
def genBounds (subnets : List Nat) (b : Option (Nat × Nat)) : Option (Nat × Nat) :=
  let d := (subnets.length, subnets.foldl max 0)
  match b with
  | Option.none => some d
  | some (x, y) => if 0 < x ∧ 0 < y ∧ d.1 ≤ x ∧ d.2 ≤ y then some (x, y) else Option.none

/-! ### exploits and privilege escalations -/

def lv3 : Rat := mkRat 5404319552844595 18014398509481984      -- the double 0.3
def lv6 : Rat := mkRat 5404319552844595 9007199254740992       -- the double 0.6
def lv9 : Rat := mkRat 8106479329266893 9007199254740992       -- the double 0.9

/-- `_get_action_probs` -/
def actionProbs (n : Nat) : ProbSpec → G (List Rat)
  | .none => randomSample n
  | .mixed => do
    let levels : List Rat := if n = 1 then [lv6, lv9] else [lv3, lv6, lv9]
    let idx ← choiceN levels.length n
    pure (idx.map fun i => levels.getD i 0)
  | .const q => if 0 < q ∧ q ≤ 1 then pure (List.replicate n q) else fail "assert: probability"
  | .list ps => if ps.length = n ∧ ps.all (fun q => decide (0 < q ∧ q ≤ 1)) then pure ps
                else fail "assert: probability list"

/-- `possible_os = self.os + [None]`: `None` is the last position -/
def osOfIdx (numOs i : Nat) : Option Nat := if i < numOs then some i else Option.none

/-- `_generate_exploits` : retry until `n` distinct (service, OS) pairs -/
def genExploits (numServices numOs n : Nat) (cost : Int) (probs : List Rat) :
    Nat → List ExploitDef → G (List ExploitDef)
  | 0, _ => fail "fuel"
  | fuel + 1, acc =>
    if n ≤ acc.length then pure acc else do
    let srv ← choice1 numServices
    let os ← choice1 (numOs + 1)
    let al ← randint 1 3
    let os := osOfIdx numOs os
    let acc' : List ExploitDef :=
      if acc.any (fun e => e.svc == srv && e.os == os) then acc
      else acc ++ [{ svc := srv, os, prob := probs.getD acc.length 0, cost, access := al.toNat }]
    genExploits numServices numOs n cost probs fuel acc'

def countOcc (cs : List (Option Nat)) (o : Option Nat) : Nat := (cs.filter (· == o)).length

/-- an OS choice list is usable: no OS (or `None`) occurs more often than there are processes, and
`None` occurs or every OS does -/
def osChoicesOk (numOs numProcesses : Nat) (cs : List (Option Nat)) : Bool :=
  (Option.none :: (List.range numOs).map some).all (fun o => decide (countOcc cs o ≤ numProcesses))
  && (cs.contains Option.none || (List.range numOs).all (fun o => cs.contains (some o)))

/-- one draw of the OS choices: `[None] + choice(possible_os, n-1)` when there are fewer
escalations than OSs, `choice(possible_os, n)` otherwise -/
def drawOnce (numOs n : Nat) : G (List (Option Nat)) :=
  if n < numOs then do
    let idx ← choiceN (numOs + 1) (n - 1)
    pure (Option.none :: idx.map (osOfIdx numOs))
  else do
    let idx ← choiceN (numOs + 1) n
    pure (idx.map (osOfIdx numOs))

/-- the re-draw loop of `_generate_privescs` -/
def drawOsChoices (numOs numProcesses n : Nat) : Nat → G (List (Option Nat))
  | 0 => fail "fuel"
  | fuel + 1 => do
    let cs ← drawOnce numOs n
    if osChoicesOk numOs numProcesses cs then pure cs else drawOsChoices numOs numProcesses n fuel

def genPrivescLoop (numProcesses n : Nat) (cost : Int) (probs : List Rat) (osChoices : List (Option Nat)) :
    Nat → List PrivescDef → G (List PrivescDef)
  | 0, _ => fail "fuel"
  | fuel + 1, acc =>
    if n ≤ acc.length then pure acc else do
    let proc ← choice1 numProcesses
    let os := osChoices.getD acc.length Option.none
    let acc' : List PrivescDef :=
      if acc.any (fun e => e.proc == some proc && e.os == os) then acc
      else acc ++ [{ proc := some proc, os, prob := probs.getD acc.length 0, cost, access := 2 }]
    genPrivescLoop numProcesses n cost probs osChoices fuel acc'

/-- `_generate_privescs` -/
def genPrivescs (numOs numProcesses n : Nat) (cost : Int) (probs : List Rat) (fuel : Nat) :
    G (List PrivescDef) := do
  if numProcesses * (numOs + 1) < n then fail "assert: too many privilege escalations" else
  let osChoices ← drawOsChoices numOs numProcesses n fuel
  genPrivescLoop numProcesses n cost probs osChoices fuel []

/-! ### sensitive hosts -/

def genSensitive (p : Params) (subnets : List Nat) : G (List (Addr × Int)) := do
  if p.randomGoal && decide (2 < subnets.length) then
    let s ← randint 3 subnets.length
    let h ← randint 0 (subnets.getD s.toNat 0)
    pure [((2, 0), p.rSensitive), ((s.toNat, h.toNat), p.rUser)]
  else
    pure [((2, 0), p.rSensitive), ((subnets.length - 1, subnets.getLastD 0 - 1), p.rUser)]

/-! ### host configurations -/

/-- `_permutations(n)` -/
def perms : Nat → List (List Bool)
  | 0 => []
  | 1 => [[true], [false]]
  | n + 2 => (perms (n + 1)).flatMap fun q => [true :: q, false :: q]

def onehotB (n i : Nat) : List Bool := (List.range n).map (· == i)

/-- a host configuration: OS index, service flags, process flags -/
abbrev Cfg := Nat × List Bool × List Bool

structure Prev where
  configs : List Cfg := []
  os : List Nat := []
  srvs : List Nat := []
  procs : List Nat := []
deriving Inhabited

/-- `first or rand() < threshold`: no draw when `first` -/
def freshDraw (first : Bool) (threshold : Rat) : G Bool :=
  if first then pure true else rand >>= fun u => pure (decide (u < threshold))

/-- a fresh uniform value or a uniformly chosen previous one -/
def freshOrPrev (fresh : Bool) (drawFresh : G Nat) (prev : List Nat) : G Nat :=
  if fresh then drawFresh else choice1 prev.length >>= fun j => pure (prev.getD j 0)

/-- the sampling loop of `_dirichlet_process`: `i` runs from `i0`, `k` iterations left -/
def dpLoop (alphaV : Rat) (numOptions : Nat) : Nat → Nat → List Bool → List Nat → G (List Bool × List Nat)
  | 0, _, cfg, prev => pure (cfg, prev)
  | k + 1, i, cfg, prev =>
    freshDraw (i == 0) (alphaV / (alphaV + (i : Rat) - 1)) >>= fun fresh =>
    freshOrPrev fresh (randint 0 numOptions >>= fun v => pure v.toNat) prev >>= fun x =>
    dpLoop alphaV numOptions k (i + 1) (cfg.set x true) (prev ++ [x])

/-- `_dirichlet_process` -/
def dirichletProcess (alphaV : Rat) (numOptions : Nat) (prev : List Nat) : G (List Bool × List Nat) :=
  poisson >>= fun n => dpLoop alphaV numOptions (max n 1) 0 (List.replicate numOptions false) prev

/-- `_dirichlet_sample` (with the Dirichlet-process weight `alpha / (alpha + n - 1)`) -/
def dirichletSample (alphaV : Rat) (numChoices : Nat) (prev : List Nat) : G (Nat × List Nat) :=
  freshDraw prev.isEmpty (alphaV / (alphaV + (prev.length : Rat) - 1)) >>= fun fresh =>
  freshOrPrev fresh (choice1 numChoices) prev >>= fun c =>
  pure (c, prev ++ [c])

/-- a new configuration drawn by the nested Dirichlet process (`_sample_config`) -/
def sampleConfig (p : Params) (prev : Prev) : G (Cfg × Prev) :=
  dirichletSample p.alphaV p.numOs prev.os >>= fun o =>
  dirichletProcess p.alphaV p.numServices prev.srvs >>= fun sv =>
  dirichletProcess p.alphaV p.numProcesses prev.procs >>= fun pr =>
  pure ((o.1, sv.1, pr.1),
        { configs := prev.configs ++ [(o.1, sv.1, pr.1)], os := o.2, srvs := sv.2, procs := pr.2 })

/-- a previously sampled configuration, uniformly -/
def reuseConfig (prev : Prev) : G (Cfg × Prev) :=
  choice1 prev.configs.length >>= fun j =>
  pure (prev.configs.getD j default, { prev with configs := prev.configs ++ [prev.configs.getD j default] })

/-- `_get_host_config` -/
def hostConfig (p : Params) (hostNum : Nat) (prev : Prev) : G (Cfg × Prev) :=
  freshDraw (hostNum == 0) (p.alphaH / (p.alphaH + (hostNum : Rat) - 1)) >>= fun newCfg =>
  if newCfg then sampleConfig p prev else reuseConfig prev

def mkHost (p : Params) (sens : List (Addr × Int)) (addr : Addr) (cfg : Cfg) : HostDef :=
  { addr, os := onehotB p.numOs cfg.1, svc := cfg.2.1, proc := cfg.2.2,
    value := (sens.lookup addr).getD p.baseHostValue, dvalue := p.hostDiscoveryValue }

/-- all addresses in generation order -/
def allAddrs (subnets : List Nat) : List Addr :=
  (subnets.zipIdx.drop 1).flatMap fun (size, s) => (List.range size).map fun h => (s, h)

def correlatedHosts (p : Params) (sens : List (Addr × Int)) : List Addr → Nat → Prev → G (List HostDef)
  | [], _, _ => pure []
  | a :: as, n, prev => do
    let (cfg, prev') ← hostConfig p n prev
    let rest ← correlatedHosts p sens as (n + 1) prev'
    pure (mkHost p sens a cfg :: rest)

def uniformHosts (p : Params) (sens : List (Addr × Int)) (srvCfgs procCfgs : List (List Bool)) :
    List Addr → G (List HostDef)
  | [] => pure []
  | a :: as => do
    let si ← choice1 srvCfgs.length
    let pi ← choice1 procCfgs.length
    let os ← choice1 p.numOs
    let rest ← uniformHosts p sens srvCfgs procCfgs as
    pure (mkHost p sens a (os, srvCfgs.getD si [], procCfgs.getD pi []) :: rest)

/-! ### `_ensure_host_vulnerability` -/

def runsOsH (h : HostDef) : Option Nat → Bool
  | Option.none => true
  | some o => h.os.getD o false
def vulnE (h : HostDef) (e : ExploitDef) : Bool := h.svc.getD e.svc false && runsOsH h e.os
def vulnPE (h : HostDef) (e : PrivescDef) : Bool :=
  (match e.proc with | some pr => h.proc.getD pr false | Option.none => true) && runsOsH h e.os
/-- `_host_is_vulnerable` -/
def hostVulnerable (es : List ExploitDef) (ps : List PrivescDef) (h : HostDef) (lvl : Nat) : Bool :=
  es.any fun e => vulnE h e && (decide (lvl ≤ e.access) || ps.any (vulnPE h))

def setOs (h : HostDef) : Option Nat → HostDef
  | Option.none => h
  | some o => { h with os := onehotB h.os.length o }

/-- `_update_host_to_vulnerable` -/
def updateVulnerable (es : List ExploitDef) (ps : List PrivescDef) (lvl : Nat) :
    Nat → HostDef → G HostDef
  | 0, _ => fail "assert: VUL_RETRIES"
  | tries + 1, h => do
    let ei ← choice1 es.length
    let e := es.getD ei default
    let h := setOs { h with svc := h.svc.set e.svc true } e.os
    if lvl ≤ e.access then pure h else
    let valid := ps.filter fun pe => runsOsH h pe.os
    if valid.isEmpty then updateVulnerable es ps lvl tries h else do
    let pi ← choice1 valid.length
    let pe := valid.getD pi default
    pure { h with proc := match pe.proc with | some pr => h.proc.set pr true | Option.none => h.proc }

/-- a sensitive host that is not ROOT-vulnerable is made so -/
def fixSensitive (es : List ExploitDef) (ps : List PrivescDef) (retries : Nat) (h : HostDef) : G HostDef :=
  if !hostVulnerable es ps h 2 then updateVulnerable es ps 2 retries h else pure h

/-- first pass: hosts in order, tracking the subnets known to be vulnerable -/
def ensurePass1 (es : List ExploitDef) (ps : List PrivescDef) (sens : List (Addr × Int)) (retries : Nat) :
    List HostDef → List Nat → G (List HostDef × List Nat)
  | [], vul => pure ([], vul)
  | h :: hs, vul => do
    let isSens := (sens.lookup h.addr).isSome
    if !isSens && vul.contains h.addr.1 then do
      let (rest, vul') ← ensurePass1 es ps sens retries hs vul
      pure (h :: rest, vul')
    else if isSens then do
      let h' ← fixSensitive es ps retries h
      let (rest, vul') ← ensurePass1 es ps sens retries hs (vul ++ [h.addr.1])
      pure (h' :: rest, vul')
    else do
      let vul1 := if hostVulnerable es ps h 1 then vul ++ [h.addr.1] else vul
      let (rest, vul') ← ensurePass1 es ps sens retries hs vul1
      pure (h :: rest, vul')

def updateAt (es : List ExploitDef) (ps : List PrivescDef) (retries : Nat) (a : Addr) :
    List HostDef → G (List HostDef)
  | [] => pure []
  | h :: hs => if h.addr == a then do
      let h' ← updateVulnerable es ps 1 retries h
      pure (h' :: hs)
    else do
      let rest ← updateAt es ps retries a hs
      pure (h :: rest)

/-- second pass: subnets without a vulnerable host get one -/
def ensurePass2 (es : List ExploitDef) (ps : List PrivescDef) (retries : Nat) :
    List (Nat × Nat) → List Nat → List HostDef → G (List HostDef)
  | [], _, hosts => pure hosts
  | (size, subnet) :: rest, vul, hosts =>
    if vul.contains subnet || subnet == 0 then ensurePass2 es ps retries rest vul hosts else do
    let k ← randint 0 size
    let hosts' ← updateAt es ps retries (subnet, k.toNat) hosts
    ensurePass2 es ps retries rest (vul ++ [subnet]) hosts'

/-! ### firewall -/

/-- order of service *names* `srv_<i>`: Python sorts the strings -/
def nameLe (a b : Nat) : Bool := decide (toString a ≤ toString b)
def insertBy (le : Nat → Nat → Bool) (x : Nat) : List Nat → List Nat
  | [] => [x]
  | y :: ys => if le x y then x :: y :: ys else y :: insertBy le x ys
def sortBy (le : Nat → Nat → Bool) (l : List Nat) : List Nat := l.foldr (insertBy le) []
def natLe (a b : Nat) : Bool := decide (a ≤ b)

/-- a set of naturals as a duplicate-free list (order irrelevant: choices are made from the sorted
list, results are stored sorted) -/
def dedup : List Nat → List Nat
  | [] => []
  | x :: xs => if xs.contains x then dedup xs else x :: dedup xs

/-- services of the exploits some host of subnet `s` is vulnerable to -/
def subnetServices (es : List ExploitDef) (hosts : List HostDef) (s : Nat) : List Nat :=
  dedup ((es.filter fun e => hosts.any fun h => h.addr.1 == s && vulnE h e).map (·.svc))

/-- draw `k` services from `avail`, each time from the name-sorted remainder -/
def drawAllowed : Nat → List Nat → List Nat → G (List Nat)
  | 0, _, allowed => pure allowed
  | k + 1, avail, allowed => do
    let sorted := sortBy nameLe avail
    let i ← choice1 sorted.length
    let x := sorted.getD i 0
    drawAllowed k (avail.erase x) (allowed ++ [x])

/-- everything available when restrictiveness does not bite, otherwise `restrictiveness` draws -/
def allowedFor (restrictiveness : Nat) (avail : List Nat) : G (List Nat) :=
  if avail.length < restrictiveness then pure avail else drawAllowed restrictiveness avail []

def fwPairs (ns : Nat) : List (Nat × Nat) :=
  (List.range ns).flatMap fun s => (List.range ns).map fun d => (s, d)

/-- `_generate_firewall` -/
def genFirewall (numServices restrictiveness : Nat) (topo : List (List Int)) (es : List ExploitDef)
    (hosts : List HostDef) : List (Nat × Nat) → G (List ((Nat × Nat) × List Nat))
  | [] => pure []
  | (src, dest) :: rest =>
    if src == dest || (topo.getD src []).getD dest 0 == 0 then
      genFirewall numServices restrictiveness topo es hosts rest
    else if decide (2 < src) && decide (2 < dest) then do
      let r ← genFirewall numServices restrictiveness topo es hosts rest
      pure (((src, dest), List.range numServices) :: r)
    else do
      let allowed ← allowedFor restrictiveness (subnetServices es hosts dest)
      let r ← genFirewall numServices restrictiveness topo es hosts rest
      pure (((src, dest), sortBy natLe allowed) :: r)

/-! ### the generator -/

def streamLength : G Nat := fun s => .ok (s.length, s)

def boundsG (subnets : List Nat) (b : Option (Nat × Nat)) : G (Nat × Nat) :=
  match genBounds subnets b with
  | some b => pure b
  | Option.none => fail "assert: address_space_bounds"

def initialHosts (p : Params) (sens : List (Addr × Int)) (addrs : List Addr) : G (List HostDef) :=
  if p.uniform then
    uniformHosts p sens ((perms p.numServices).dropLast) ((perms p.numProcesses).dropLast) addrs
  else correlatedHosts p sens addrs 0 {}

/-- `_ensure_host_vulnerability` -/
def ensureVulnerable (es : List ExploitDef) (ps : List PrivescDef) (sens : List (Addr × Int))
    (retries : Nat) (subnets : List Nat) (hosts : List HostDef) : G (List HostDef) :=
  ensurePass1 es ps sens retries hosts [] >>= fun r =>
  ensurePass2 es ps retries subnets.zipIdx r.2 r.1

/-- `ScenarioGenerator.generate` (explicit binds, so that a successful run can be taken apart) -/
def generate (p : Params) : G Scenario :=
  if !p.valid then fail "assert: parameters" else
  let subnets := genSubnets p.period p.userSize p.numHosts
  let topo := genTopo subnets.length
  boundsG subnets p.bounds >>= fun bounds =>
  streamLength >>= fun n =>
  actionProbs p.nExploits p.exploitProbs >>= fun eprobs =>
  genExploits p.numServices p.numOs p.nExploits p.exploitCost eprobs (n + 1) [] >>= fun es =>
  actionProbs p.nPrivescs p.privescProbs >>= fun pprobs =>
  genPrivescs p.numOs p.numProcesses p.nPrivescs p.privescCost pprobs (n + 1) >>= fun ps =>
  genSensitive p subnets >>= fun sens =>
  initialHosts p sens (allAddrs subnets) >>= fun hosts0 =>
  ensureVulnerable es ps sens p.vulRetries subnets hosts0 >>= fun hosts =>
  genFirewall p.numServices p.restrictiveness topo es hosts (fwPairs subnets.length) >>= fun fw =>
  pure { subnets, topo, nOs := p.numOs, nSvc := p.numServices, nProc := p.numProcesses, sens,
         exploits := es, privescs := ps, svcScanCost := p.svcScanCost, osScanCost := p.osScanCost,
         subnetScanCost := p.subnetScanCost, procScanCost := p.procScanCost, fw, hosts,
         stepLimit := p.stepLimit, bounds }

end NASim.Gen
