import NasimModel.Model.PyRtAct
import NasimModel.Model.Loader
/-!
# Run-time vocabulary of the source translator, loader world

`harness/pysrc_load.py` prints the simple validators of `nasim/scenarios/loader.py` as Lean definitions over the YAML
AST `Y` (`Generated/SrcLoad.lean`).  A validator is translated to the Boolean "returns normally / returns True"; an
`assert` that fails, and any operation Python would refuse with a `TypeError`, is a rejection.  This file fixes what
the dynamic operations mean on `Y` values: type tests, ordering comparisons with numbers (refused for anything that
is not `bool` / `int` / `float`), `==`, `in`, `len(set(l))` (refused for unhashable elements).
-/
namespace NASim.PyRt
open NASim.Load

/-- `x > k` for a number `k`; Python refuses to order a string / `None` / list against a number: rejection -/
def ygt (x : Y) (k : Int) : Bool := match x.toRat? with | some q => decide ((k : Rat) < q) | none => false
def ylt (x : Y) (k : Int) : Bool := match x.toRat? with | some q => decide (q < (k : Rat)) | none => false
def yge (x : Y) (k : Int) : Bool := match x.toRat? with | some q => decide ((k : Rat) ≤ q) | none => false
/-- `x == k` never raises -/
def yeq (x : Y) (k : Int) : Bool := x.pyEq (.int k)
/-- the value of an `int`-typed YAML scalar used as a list index -/
def yNat (x : Y) : Nat := (x.intLike?.getD 0).toNat

/-- `set(l)`: the distinct elements (by `==` / hash) in order of first appearance -/
def dedupY : List Y → List Y
  | [] => []
  | x :: xs => x :: (dedupY xs).filter (fun y => !(x.pyEq y))
/-- `len(set(l))`; `set` refuses unhashable elements (lists, dictionaries) -/
def setLen (l : List Y) : Option Nat := if l.all Y.isScalar then some (dedupY l).length else none

end NASim.PyRt

namespace NASim.PyRt
open NASim.Load
/-- `eval(key)` of an address key: the documented `(int, int)` spelling; anything else (another spelling, a key that is
not a string) raises or yields something the following tuple unpacking / validity test refuses -/
def evalAddr (k : Y) : Option (Int × Int) := match k with | .str s => parsePair s | _ => none
end NASim.PyRt

namespace NASim.PyRt
open NASim.Load
/-- `k in e` / `e[k]` / `e[k] = v` on a YAML dictionary with a string key -/
def ymapHas (e : Y) (k : String) : Bool := (getKey (mapOf e) k).isSome
def ymapGet (e : Y) (k : String) : Y := (getKey (mapOf e) k).getD .null
def ymapSet (e : Y) (k : String) (v : Y) : Y :=
  .map (if (mapOf e).any (fun p => p.1.pyEq (.str k)) then (mapOf e).map (fun p => if p.1.pyEq (.str k) then (p.1, v) else p)
        else mapOf e ++ [(.str k, v)])
/-- `str(x).lower() == "none"` -/
def lowerIsNone (x : Y) : Bool := match x with | .str s => isNoneWord s | .null => true | _ => false
def _root_.NASim.Load.Y.isNull : Y → Bool | .null => true | _ => false
/-- `x <= k` for a number `k` (refused for non-numbers: rejection) -/
def yle (x : Y) (k : Int) : Bool := match x.toRat? with | some q => decide (q ≤ (k : Rat)) | none => false
end NASim.PyRt

namespace NASim.PyRt
open NASim.Load
/-- `k in TABLE` / `TABLE[k]` for one of the loader's key tables (key → name of the expected type) and a YAML key -/
def tableHas (t : List (String × String)) (k : Y) : Bool := match k with | .str s => (t.lookup s).isSome | _ => false
def tableGet (t : List (String × String)) (k : Y) : String := match k with | .str s => (t.lookup s).getD "" | _ => ""
/-- `isinstance(v, T)` for the type names the tables use -/
def isInstanceOf (v : Y) (ty : String) : Bool :=
  if ty == "list" then v.isList else if ty == "map" then v.isMap else if ty == "number" then v.toRat?.isSome
  else if ty == "int" then v.intLike?.isSome else if ty == "str" then v.isStr else false
end NASim.PyRt

namespace NASim.PyRt
open NASim.Load
/-- iteration over a YAML value: a list's elements, a string's characters, a dictionary's keys; anything else is not
iterable (`TypeError`) -/
def iterY : Y → Option (List Y)
  | .list l => some l
  | .str s => some (s.toList.map fun c => .str c.toString)
  | .map m => some (m.map (·.1))
  | _ => none
/-- `len(x)` / `len(set(x))` of such a value (refused for the rest, and `set` for unhashable elements) -/
def ylen (x : Y) : Option Nat := (iterY x).map List.length
def ysetLen (x : Y) : Option Nat := (iterY x).bind setLen
/-- `a == b` inside an `assert` where either side may have been refused -/
def optEq (a b : Option Nat) : Bool := match a, b with | some x, some y => x == y | _, _ => false
/-- `addr in self.sensitive_hosts` / `self.sensitive_hosts[addr]` for an evaluated address (keys are pairs of naturals) -/
def sensHas (m : List ((Nat × Nat) × Rat)) (a : Int × Int) : Bool :=
  decide (0 ≤ a.1) && decide (0 ≤ a.2) && (m.lookup (a.1.toNat, a.2.toNat)).isSome
def sensGet (m : List ((Nat × Nat) × Rat)) (a : Int × Int) : Rat := (m.lookup (a.1.toNat, a.2.toNat)).getD 0
/-- `math.isclose(x, v)` for a YAML value already known to be a number -/
def iscloseY (x : Y) (v : Rat) : Bool := match x.toRat? with | some q => isclose q v | none => false
end NASim.PyRt

namespace NASim.PyRt
open NASim.Load
/-- is `t` a contiguous part of `s` (Python's `t in s` on strings) -/
def isInfixChars (t : List Char) : List Char → Bool
  | [] => t.isEmpty
  | c :: cs => t.isPrefixOf (c :: cs) || isInfixChars t cs
/-- `d[k] = v` on a name → flag dictionary: an existing key keeps its position -/
def flagSet (d : List (Y × Bool)) (k : Y) (v : Bool) : List (Y × Bool) :=
  if d.any (fun p => p.1.pyEq k) then d.map (fun p => if p.1.pyEq k then (p.1, v) else p) else d ++ [(k, v)]
/-- `x in c` for a YAML value `c`: an element of a list, a key of a dictionary, a substring of a string (anything else
is a `TypeError`; the validated configurations this is applied to hold lists) -/
def yContains (c x : Y) : Bool :=
  match c with
  | .list l => pyIn x l
  | .map m => pyIn x (m.map (·.1))
  | .str s => (match x with | .str t => isInfixChars t.toList s.toList | _ => false)
  | _ => false
/-- `float(y)` of a numeric YAML value -/
def yfloat (y : Y) : Rat := y.toRat?.getD 0
end NASim.PyRt

namespace NASim.PyRt
open NASim.Load
/-- a validated list of subnet sizes (positive `int`s) as naturals; `sum` of it -/
def natsOf (l : List Y) : List Nat := l.map fun y => (y.exactInt?.getD 0).toNat
def sumY (l : List Y) : Nat := (natsOf l).foldl (· + ·) 0
/-- a validated topology (rows of 0 / 1) as a matrix of integers -/
def topoOf (rows : List Y) : List (List Int) := rows.map fun r => (listOf r).map fun c => c.intLike?.getD 0
/-- `d[addr] = value` on the sensitive-host dictionary (Python's `dict`: an existing key keeps its position) -/
def sensSet (d : List ((Nat × Nat) × Rat)) (a : Int × Int) (v : Y) : List ((Nat × Nat) × Rat) :=
  dictSet d (a.1.toNat, a.2.toNat) (v.toRat?.getD 0)
/-- `d[pair] = rule` on the subnet-firewall dictionary -/
def fwSet (d : List ((Int × Int) × Y)) (a : Int × Int) (v : Y) : List ((Int × Int) × Y) :=
  if d.any (fun p => p.1 == a) then d.map (fun p => if p.1 == a then (a, v) else p) else d ++ [(a, v)]
end NASim.PyRt
