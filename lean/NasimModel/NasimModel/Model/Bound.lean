import NasimModel.Model.Env
/-!
# The advertised score upper bound (`get_minimal_hops_to_goal`, `get_score_upper_bound`)

`hops` follows `nasim/envs/utils.py:52-102`: Floyd–Warshall on the topology with `int16` infinity,
then the shortest *Hamiltonian path* through the internet and the sensitive subnets in the metric
closure, minimised over all permutations.
-/
namespace NASim

def INF : Nat := 32767

def dget (d : List (List Nat)) (i j : Nat) : Nat := (d.getD i []).getD j INF
def dset (d : List (List Nat)) (i j v : Nat) : List (List Nat) :=
  d.set i ((d.getD i []).set j v)

/-- `np.full((n, n), max_value)` written through the two nested loops of lines 66-71: 0 on the diagonal, 1 where the
topology has a 1 -/
def initDist (topo : List (List Int)) : List (List Nat) :=
  let n := topo.length
  (List.range n).foldl (fun d s1 =>
    (List.range n).foldl (fun d s2 =>
      if s1 == s2 then dset d s1 s2 0
      else if (topo.getD s1 []).getD s2 0 == 1 then dset d s1 s2 1 else d) d)
    (List.replicate n (List.replicate n INF))

/-- the three nested loops, updating the matrix in place -/
def floydWarshall (d0 : List (List Nat)) : List (List Nat) :=
  let n := d0.length
  (List.range n).foldl (fun d k =>
    (List.range n).foldl (fun d i =>
      (List.range n).foldl (fun d j =>
        let dis := if dget d i k == INF || dget d k j == INF then INF else dget d i k + dget d k j
        if dget d i j > dis then dset d i j (dget d i k + dget d k j) else d) d) d) d0

def insertEverywhere (x : Nat) : List Nat → List (List Nat)
  | [] => [[x]]
  | y :: ys => (x :: y :: ys) :: (insertEverywhere x ys).map (y :: ·)

def permsOf : List Nat → List (List Nat)
  | [] => [[]]
  | x :: xs => (permsOf xs).flatMap (insertEverywhere x)

def pathLen (d : List (List Nat)) : List Nat → Nat
  | a :: b :: rest => dget d a b + pathLen d (b :: rest)
  | _ => 0

/-- `[INTERNET] + sensitive subnets` without repetitions, in order of first occurrence -/
def subnetsToVisit (sens : List (Addr × Int)) : List Nat :=
  sens.foldl (fun acc p => if acc.contains p.1.1 then acc else acc ++ [p.1.1]) [0]

/-- `get_minimal_hops_to_goal` -/
def hops (sc : Scenario) : Nat :=
  let d := floydWarshall (initDist sc.topo)
  ((permsOf (subnetsToVisit sc.sens)).map (pathLen d)).foldl min INF

/-- `get_score_upper_bound`, in units of 1/64 -/
def scoreUpperBound (sc : Scenario) : Int :=
  (sc.sens.map (·.2)).foldl (· + ·) 0 + (sc.hosts.map fun h => max 0 h.dvalue).foldl (· + ·) 0
    - 64 * (hops sc : Int)

/-- the bound before the repair D12: discovery values of *all* hosts, whatever their sign -/
def scoreUpperBoundBeforeD12 (sc : Scenario) : Int :=
  (sc.sens.map (·.2)).foldl (· + ·) 0 + (sc.hosts.map (·.dvalue)).foldl (· + ·) 0 - 64 * (hops sc : Int)

/-! ### what the bound is supposed to count -/

def connS (sc : Scenario) (a b : Nat) : Bool := ((sc.topo.getD a []).getD b 0) == 1

/-- a set of subnets in which every member can be entered from the internet or from another member
that was entered before: some order of the set is "rooted-connected" (firewalls ignored) -/
def rootedConnected (sc : Scenario) : List Nat → List Nat → Nat → Bool
  | _, [], _ => true
  | _, _, 0 => false
  | inside, todo, fuel + 1 =>
    match todo.find? (fun x => connS sc x 0 || inside.any (fun y => connS sc y x)) with
    | some x => rootedConnected sc (x :: inside) (todo.erase x) fuel
    | none => false

def sublists : List Nat → List (List Nat)
  | [] => [[]]
  | x :: xs => (sublists xs).flatMap fun l => [l, x :: l]

/-- the smallest number of subnets that must be entered to hold every sensitive subnet, firewalls
ignored — brute force over subsets (exponential: small instances only) -/
def minSubnets (sc : Scenario) : Nat :=
  let all := (List.range sc.subnets.length).drop 1
  let need := (subnetsToVisit sc.sens).drop 1
  (((sublists all).filter fun t =>
      need.all (fun s => t.contains s) && rootedConnected sc [] t (t.length + 1)).map List.length).foldl min INF

end NASim
