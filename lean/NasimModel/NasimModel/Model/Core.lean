/-!
# Core dynamics of NASim

Hand-written executable model of `nasim/envs/network.py` (`Network.perform_action`,
`_perform_subnet_scan`, `_update_reachable`, `has_required_remote_permission`,
`traffic_permitted`, `reset`, `all_sensitive_hosts_compromised`) and of
`nasim/envs/host_vector.py` (`HostVector.perform_action`).

Imports nothing: the same definitions are compiled into the native driver that the
correspondence harness runs against the Python implementation.

Conventions
* a state is the list of decoded tensor rows in `address_space` order; the configuration
  columns (address, value, discovery value, OS, services, processes) are *part of the row*,
  exactly as in the tensor, so "no step alters the configuration" is a theorem;
* values, costs and rewards are integers in units of 1/64;
* probabilities and uniform draws are exact rationals (`Rat`): the harness sends the exact
  value of the IEEE double, so `u > p` below is the comparison the implementation performs.
-/
namespace NASim

abbrev Addr := Nat × Nat

/-- one decoded row of the state tensor -/
structure Row where
  addr : Addr
  comp : Bool
  reach : Bool
  disc : Bool
  value : Int
  dvalue : Int
  access : Nat
  os : List Bool
  svc : List Bool
  proc : List Bool
deriving DecidableEq, Repr, Inhabited

abbrev State := List Row

inductive Kind | noop | svcScan | osScan | subnetScan | procScan | exploit | privesc
deriving DecidableEq, Repr, Inhabited

structure Action where
  kind : Kind
  target : Addr
  cost : Int
  prob : Rat
  req : Nat
  svc : Nat := 0
  proc : Option Nat := none
  os : Option Nat := none
  grant : Nat := 0
deriving DecidableEq, Repr, Inhabited

/-- what `Network` keeps of the scenario -/
structure Net where
  subnets : List Nat
  topo : List (List Int)
  fw : List ((Nat × Nat) × List Nat)
  hostFw : List (Addr × List (Addr × List Nat))
  addrs : List Addr
  sens : List (Addr × Int)
deriving Repr, Inhabited

/-- `ActionResult` -/
structure Result where
  success : Bool
  value : Int := 0
  connErr : Bool := false
  permErr : Bool := false
  undefErr : Bool := false
  svcInfo : Option (List Bool) := none
  osInfo : Option (List Bool) := none
  procInfo : Option (List Bool) := none
  accessInfo : Option Nat := none
  discovered : List (Addr × Bool) := []
  newly : List (Addr × Bool) := []
deriving DecidableEq, Repr, Inhabited

/-- `Network.subnets_connected` : `topology[a][b] == 1` -/
def Net.conn (n : Net) (a b : Nat) : Bool := ((n.topo.getD a []).getD b 0) == 1
/-- `Network.subnet_public` : `topology[a][INTERNET] == 1` -/
def Net.pub (n : Net) (a : Nat) : Bool := n.conn a 0

/-- `Network.subnet_traffic_permitted` -/
def Net.subnetTraffic (n : Net) (src dst svc : Nat) : Bool :=
  if src == dst then true
  else if !n.conn src dst then false
  else match n.fw.lookup (src, dst) with
    | some l => l.contains svc
    | none => false

/-- `Host.traffic_permitted` of the destination host -/
def Net.hostTraffic (n : Net) (src dst : Addr) (svc : Nat) : Bool :=
  match n.hostFw.lookup dst with
  | none => true
  | some m => match m.lookup src with
    | none => true
    | some denied => !denied.contains svc

def State.get (s : State) (a : Addr) : Row := (s.find? (fun r => r.addr == a)).getD default

def hasAccess (r : Row) (lvl : Nat) : Bool := decide (lvl ≤ r.access)

def Action.isRemote (a : Action) : Bool :=
  a.kind == .svcScan || a.kind == .osScan || a.kind == .exploit
def Action.isScan (a : Action) : Bool :=
  a.kind == .svcScan || a.kind == .osScan || a.kind == .subnetScan || a.kind == .procScan

/-- `Network.has_required_remote_permission` -/
def hasRemotePerm (n : Net) (s : State) (a : Action) : Bool :=
  if n.pub a.target.1 then true else
  s.any fun src =>
    src.comp
    && !(a.isScan && !n.conn src.addr.1 a.target.1)
    && !(a.kind == .exploit && !n.subnetTraffic src.addr.1 a.target.1 a.svc)
    && hasAccess src a.req

/-- `Network.traffic_permitted`: the internet is a source for public targets through the
`(INTERNET, subnet)` rule; otherwise only compromised hosts are sources. -/
def trafficPermitted (n : Net) (s : State) (t : Addr) (svc : Nat) : Bool :=
  (n.pub t.1 && n.subnetTraffic 0 t.1 svc) ||
  s.any fun src =>
    src.comp
    && n.subnetTraffic src.addr.1 t.1 svc
    && n.hostTraffic src.addr t svc

def runsOs (r : Row) : Option Nat → Bool
  | none => true
  | some o => r.os.getD o false

def runsProc (r : Row) : Option Nat → Bool
  | none => true
  | some p => r.proc.getD p false

def exploitApplies (r : Row) (a : Action) : Bool := r.svc.getD a.svc false && runsOs r a.os
def privescApplies (r : Row) (a : Action) : Bool := runsProc r a.proc && runsOs r a.os
def onHostOk (r : Row) (a : Action) : Bool := r.comp && decide (a.req ≤ r.access)
/-- `if not self.access == ROOT: next_state.access = action.access` -/
def raiseAccess (r : Row) (g : Nat) : Nat := if r.access == 2 then r.access else g
/-- the host value is gained only when ROOT is obtained and was not held -/
def gain (r : Row) (g : Nat) : Int := if r.access != 2 && g == 2 then r.value else 0

/-- `HostVector.perform_action` -/
def hostPerform (r : Row) (a : Action) : Row × Result :=
  if a.kind == .svcScan then (r, { success := true, svcInfo := some r.svc })
  else if a.kind == .osScan then (r, { success := true, osInfo := some r.os })
  else if a.kind == .exploit && exploitApplies r a then
    ({ r with comp := true, access := raiseAccess r a.grant },
     { success := true, value := gain r a.grant, svcInfo := some r.svc, osInfo := some r.os,
       accessInfo := some a.grant })
  else if !onHostOk r a then (r, { success := false, permErr := true })
  else if a.kind == .procScan then
    (r, { success := true, accessInfo := some r.access, procInfo := some r.proc })
  else if a.kind == .privesc && privescApplies r a then
    ({ r with access := raiseAccess r a.grant },
     { success := true, value := gain r a.grant, procInfo := some r.proc, osInfo := some r.os,
       accessInfo := some a.grant })
  else (r, { success := false })

def hostRow (a : Action) (r : Row) : Row := (hostPerform r a).1
def discRow (n : Net) (sub : Nat) (r : Row) : Row :=
  if n.conn sub r.addr.1 && !r.disc then { r with disc := true } else r
def reachRow (n : Net) (c : Nat) (r : Row) : Row :=
  if !r.reach && n.conn c r.addr.1 then { r with reach := true } else r

/-- `Network._perform_subnet_scan` -/
def subnetScan (n : Net) (s : State) (a : Action) : State × Result :=
  let t := s.get a.target
  if !t.comp then (s, { success := false, connErr := true })
  else if !hasAccess t a.req then (s, { success := false, permErr := true })
  else
    let hit (r : Row) : Bool := n.conn a.target.1 r.addr.1
    (s.map (discRow n a.target.1),
     { success := true,
       value := (s.filter fun r => hit r && !r.disc).foldl (fun acc r => acc + r.dvalue) 0,
       discovered := s.map (fun r => (r.addr, hit r)),
       newly := s.map (fun r => (r.addr, hit r && !r.disc)) })

inductive Gate | noop | fail (r : Result) | pass
deriving Repr

/-- the precondition gates of `Network.perform_action`, in source order (lines 59-82) -/
def gate (n : Net) (s : State) (a : Action) : Gate :=
  if a.kind == .noop then .noop
  else if !(s.get a.target).reach || !(s.get a.target).disc then
    .fail { success := false, connErr := true }
  else if a.isRemote && !hasRemotePerm n s a then .fail { success := false, permErr := true }
  else if a.kind == .exploit && !trafficPermitted n s a.target a.svc then
    .fail { success := false, connErr := true }
  else if a.kind == .privesc && !(s.get a.target).comp then
    .fail { success := false, connErr := true }
  else .pass

/-- number of uniform draws a gate-passing action consumes: none for an exploit on an already
compromised host, one for everything else (scans included) -/
def drawsNeeded (s : State) (a : Action) : Nat :=
  if a.kind == .exploit && (s.get a.target).comp then 0 else 1

/-- what a gate-passing, chance-surviving action does -/
def effect (n : Net) (s : State) (a : Action) : State × Result :=
  if a.kind == .subnetScan then subnetScan n s a
  else
    let res := (hostPerform (s.get a.target) a).2
    let s1 := s.map fun r => if r.addr == a.target then hostRow a r else r
    (if a.kind == .exploit && res.success then s1.map (reachRow n a.target.1) else s1, res)

def chanceFail : Result := { success := false, undefErr := true }

/-- `Network.perform_action`: next state, result, number of uniform draws consumed -/
def perform (n : Net) (s : State) (a : Action) (u : Rat) : State × Result × Nat :=
  match gate n s a with
  | .noop => (s, { success := true }, 0)
  | .fail r => (s, r, 0)
  | .pass =>
    if drawsNeeded s a = 1 ∧ u > a.prob then (s, chanceFail, 1)
    else ((effect n s a).1, (effect n s a).2, drawsNeeded s a)

/-- `Network.reset` -/
def reset (n : Net) (s : State) : State :=
  s.map fun r => { r with comp := false, access := 0, reach := n.pub r.addr.1, disc := n.pub r.addr.1 }

/-- `Network.all_sensitive_hosts_compromised` -/
def goal (n : Net) (s : State) : Bool := n.sens.all fun (a, _) => hasAccess (s.get a) 2

end NASim
