import NasimModel.Model.Env
/-!
# Run-time vocabulary of the source translator

`harness/pysrc.py` prints the dynamics functions of the repository (`Network.perform_action`,
`HostVector.perform_action`, `_perform_subnet_scan`, `_update_reachable`, `reset`, the firewall and
permission tests, `NASimEnv.step / generative_step / reset`, …) as Lean definitions
(`Generated/SrcDyn.lean`), statement by statement.  This file is what those definitions are
written over: the control operator for `for` loops with early `return` / `continue`, and the
primitive reads and writes of the data the Python code touches (one tensor row, the topology
matrix, the firewall dictionaries, a `dict` keyed by host address).

Nothing here says what a function of the repository *does*; that comes from the source text.
-/
namespace NASim.PyRt

/-- how one iteration of a loop body ends: `return v`, or fall through / `continue` with the
loop-carried variables -/
inductive Ctl (β σ : Type) where
  | ret (v : β)
  | next (s : σ)

/-- `for x in l: body` with loop-carried state -/
def forEach {α β σ : Type} : List α → σ → (α → σ → Ctl β σ) → Ctl β σ
  | [], s, _ => .next s
  | x :: xs, s, body =>
    match body x s with
    | .ret v => .ret v
    | .next s' => forEach xs s' body

/-- `self.topology[i][j]` -/
def topo (n : Net) (i j : Nat) : Int := (n.topo.getD i []).getD j 0

/-- `self.firewall[(a, b)]` (a missing key is a `KeyError` in Python; the loader guarantees a rule for
every connected pair, which is the only place the dynamics read it) -/
def fwRule (n : Net) (k : Nat × Nat) : List Nat := (n.fw.lookup k).getD []

/-- the scenario's `Host` object as far as the dynamics read it: its firewall (source address → denied services) -/
abbrev Host := List (Addr × List Nat)

/-- `self.hosts[addr]` -/
def hostOf (n : Net) (a : Addr) : Host := (n.hostFw.lookup a).getD []

/-- `host.firewall.get(addr, [])` -/
def hostFwGet (h : Host) (a : Addr) : List Nat := (h.lookup a).getD []

/-- `self.sensitive_addresses` -/
def sensitiveAddresses (n : Net) : List Addr := n.sens.map (·.1)

/-- `state.get_host(addr)`: the view of the row with that address -/
def getHost (s : State) (a : Addr) : Row := s.get a

/-- a write through a host view -/
def updHost (s : State) (a : Addr) (f : Row → Row) : State := s.map fun r => if r.addr == a then f r else r

/-- `state.update_host(addr, vector)`: the whole row is overwritten -/
def setHost (s : State) (a : Addr) (r' : Row) : State := s.map fun r => if r.addr == a then r' else r

/-- `HostVector.is_running_service(srv)` (service names are indices in the model) -/
def isRunningSvc (r : Row) (svc : Nat) : Bool := r.svc.getD svc false

/-- `HostVector.is_running_os(os)`; only ever called behind `os is None or …` -/
def isRunningOs (r : Row) : Option Nat → Bool
  | some o => r.os.getD o false
  | none => false

def isRunningProc (r : Row) : Option Nat → Bool
  | some p => r.proc.getD p false
  | none => false

/-- `d[k] = v` on a Python `dict` (insertion ordered: a present key keeps its place) -/
def dictSet {α β : Type} [BEq α] (d : List (α × β)) (k : α) (v : β) : List (α × β) :=
  if d.any (fun e => e.1 == k) then d.map (fun e => if e.1 == k then (k, v) else e) else d ++ [(k, v)]

/-- `steps >= step_limit` behind `step_limit is not None` -/
def geOptInt (steps : Nat) : Option Int → Bool
  | some l => decide (l ≤ (steps : Int))
  | none => false

/-- `flat_obs` only selects `numpy_flat()` or `numpy()`: the same content in another shape -/
def flatObs : Bool := true

/-- `next_state.get_observation(action, action_obs, fully_obs)` (translated separately: `Generated/Entitlement.lean`) -/
def getObservation (e : Env) (s : State) (a : Action) (r : Result) (fullyObs : Bool) : List (List Int) :=
  observe e.sc.layout s a r fullyObs

/-- `state.get_initial_observation(fully_obs)` -/
def getInitialObservation (e : Env) (s : State) (fullyObs : Bool) : List (List Int) :=
  initialObs e.sc.layout s fullyObs

end NASim.PyRt
