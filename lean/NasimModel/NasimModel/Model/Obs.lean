import NasimModel.Model.Core
/-!
# Host-vector layout and observations

Model of `HostVector.vectorize / _update_vector_idxs / observe / get_readable`
(`nasim/envs/host_vector.py`), of `State.get_observation / get_initial_observation`
(`nasim/envs/state.py`) and of `Observation` (`nasim/envs/observation.py`).

Tensor entries are integers: flags 0/1, access 0..2, values in units of 1/64.
-/
namespace NASim

/-- the class-level layout parameters of `HostVector` -/
structure Layout where
  b0 : Nat        -- address_space_bounds[0]
  b1 : Nat        -- address_space_bounds[1]
  nOs : Nat
  nSvc : Nat
  nProc : Nat
deriving Repr, Inhabited, DecidableEq

def onehot (n i : Nat) : List Int := (List.range n).map fun j => if j = i then 1 else 0
def bi (b : Bool) : Int := if b then 1 else 0
def zeros (n : Nat) : List Int := List.replicate n 0

/-- the documented row: subnet one-hot, host one-hot, compromised, reachable, discovered, value,
discovery value, access, OS flags, service flags, process flags -/
def encodeRow (L : Layout) (r : Row) : List Int :=
  onehot L.b0 r.addr.1 ++ onehot L.b1 r.addr.2 ++
  [bi r.comp, bi r.reach, bi r.disc, r.value, r.dvalue, (r.access : Int)] ++
  r.os.map bi ++ r.svc.map bi ++ r.proc.map bi

/-! ### the index arithmetic of `_update_vector_idxs` -/
def Layout.hostIdx (L : Layout) : Nat := L.b0
def Layout.compIdx (L : Layout) : Nat := L.hostIdx + L.b1
def Layout.reachIdx (L : Layout) : Nat := L.compIdx + 1
def Layout.discIdx (L : Layout) : Nat := L.reachIdx + 1
def Layout.valueIdx (L : Layout) : Nat := L.discIdx + 1
def Layout.dvalueIdx (L : Layout) : Nat := L.valueIdx + 1
def Layout.accessIdx (L : Layout) : Nat := L.dvalueIdx + 1
def Layout.osStart (L : Layout) : Nat := L.accessIdx + 1
def Layout.svcStart (L : Layout) : Nat := L.osStart + L.nOs
def Layout.procStart (L : Layout) : Nat := L.svcStart + L.nSvc
def Layout.stateSize (L : Layout) : Nat := L.procStart + L.nProc

/-- write a block of consecutive entries, as the `enumerate` loops of `vectorize` do -/
def writeFrom (v : List Int) (start : Nat) : List Int → List Int
  | [] => v
  | x :: xs => writeFrom (v.set start x) (start + 1) xs

/-- `HostVector.vectorize`: a zero vector of `state_size` written through the computed indices -/
def vectorize (L : Layout) (r : Row) : List Int :=
  let v := zeros L.stateSize
  let v := v.set (0 + r.addr.1) 1
  let v := v.set (L.hostIdx + r.addr.2) 1
  let v := v.set L.compIdx (bi r.comp)
  let v := v.set L.reachIdx (bi r.reach)
  let v := v.set L.discIdx (bi r.disc)
  let v := v.set L.valueIdx r.value
  let v := v.set L.dvalueIdx r.dvalue
  let v := v.set L.accessIdx (r.access : Int)
  let v := writeFrom v L.osStart (r.os.map bi)
  let v := writeFrom v L.svcStart (r.svc.map bi)
  writeFrom v L.procStart (r.proc.map bi)

/-- scan for the first maximal entry: rest, best value so far, its index, current index -/
def argmaxAux : List Int → Int → Nat → Nat → Nat
  | [], _, best, _ => best
  | y :: ys, b, best, i => if y > b then argmaxAux ys y i (i + 1) else argmaxAux ys b best (i + 1)

/-- index of the first maximal entry (`numpy.argmax`) -/
def argmax : List Int → Nat
  | [] => 0
  | x :: xs => argmaxAux xs x 0 1

def slice (v : List Int) (a b : Nat) : List Int := (v.drop a).take (b - a)

/-- decode a raw vector through the slices of `HostVector` (`address`, `compromised`, …) -/
def decodeRow (L : Layout) (v : List Int) : Row :=
  { addr := (argmax (slice v 0 L.hostIdx), argmax (slice v L.hostIdx L.compIdx)),
    comp := v.getD L.compIdx 0 != 0,
    reach := v.getD L.reachIdx 0 != 0,
    disc := v.getD L.discIdx 0 != 0,
    value := v.getD L.valueIdx 0,
    dvalue := v.getD L.dvalueIdx 0,
    access := (v.getD L.accessIdx 0).toNat,
    os := (slice v L.osStart L.svcStart).map (· != 0),
    svc := (slice v L.svcStart L.procStart).map (· != 0),
    proc := (slice v L.procStart L.stateSize).map (· != 0) }

/-- `HostVector.observe` keyword switches -/
structure Mask where
  address : Bool := false
  comp : Bool := false
  reach : Bool := false
  disc : Bool := false
  access : Bool := false
  value : Bool := false
  dvalue : Bool := false
  svc : Bool := false
  proc : Bool := false
  os : Bool := false
deriving Repr, Inhabited, DecidableEq

/-- `HostVector.observe` -/
def observeRow (L : Layout) (r : Row) (m : Mask) : List Int :=
  (if m.address then onehot L.b0 r.addr.1 ++ onehot L.b1 r.addr.2 else zeros (L.b0 + L.b1)) ++
  [if m.comp then bi r.comp else 0, if m.reach then bi r.reach else 0,
   if m.disc then bi r.disc else 0,
   if m.value then r.value else 0, if m.dvalue then r.dvalue else 0,
   if m.access then (r.access : Int) else 0] ++
  (if m.os then r.os.map bi else zeros r.os.length) ++
  (if m.svc then r.svc.map bi else zeros r.svc.length) ++
  (if m.proc then r.proc.map bi else zeros r.proc.length)

def baseMask : Mask := { address := true, reach := true, disc := true }

/-- what `State.get_observation` asks of the target row, per action type -/
def targetMask (k : Kind) : Mask :=
  match k with
  | .exploit => { baseMask with comp := true, svc := true, os := true, access := true, value := true }
  | .privesc => { baseMask with comp := true, access := true }
  | .svcScan => { baseMask with svc := true }
  | .osScan => { baseMask with os := true }
  | .procScan => { baseMask with proc := true, access := true }
  | .subnetScan => { baseMask with comp := true }
  | .noop => {}

/-- `Observation.from_action_result`: the auxiliary row -/
def auxRow (w : Nat) (r : Result) : List Int :=
  [bi r.success, bi r.connErr, bi r.permErr, bi r.undefErr] ++ zeros (w - 4)

/-- mask applied to row `x` of the next state by `State.get_observation` (partially observable) -/
def rowMask (a : Action) (r : Result) (x : Row) : Mask :=
  if a.kind == .noop || !r.success then {}
  else if x.addr == a.target then targetMask a.kind
  else if a.kind == .subnetScan && (r.discovered.lookup x.addr).getD false then
    { baseMask with dvalue := (r.newly.lookup x.addr).getD false }
  else {}

/-- `State.get_observation` on the *next* state -/
def observe (L : Layout) (s' : State) (a : Action) (r : Result) (fullyObs : Bool) : List (List Int) :=
  let aux := auxRow L.stateSize r
  if fullyObs then s'.map (encodeRow L) ++ [aux]
  else s'.map (fun x => observeRow L x (rowMask a r x)) ++ [aux]

/-- `State.get_initial_observation` -/
def initialObs (L : Layout) (s : State) (fullyObs : Bool) : List (List Int) :=
  let aux := zeros L.stateSize
  if fullyObs then s.map (encodeRow L) ++ [aux]
  else s.map (fun x => if x.reach then observeRow L x baseMask else observeRow L x {}) ++ [aux]

/-- row-major flattening (`numpy.ndarray.flatten`) -/
def flatten2 (o : List (List Int)) : List Int := o.flatten

end NASim
