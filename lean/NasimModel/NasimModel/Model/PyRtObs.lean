import NasimModel.Model.PyRt
/-!
# Run-time vocabulary of the source translator, raw-array world

`harness/pysrc_obs.py` prints the layout and observation functions of the repository
(`HostVector._update_vector_idxs`, the slices, `vectorize`, the property getters, `observe`,
`Observation.__init__ / from_state / from_action_result / update_from_host`,
`State.get_initial_observation / get_observation`) as Lean definitions over *raw* data
(`Generated/SrcObs.lean`).  This file is what they are written over: NumPy's `zeros`, indexing, slice
reads and slice assignments on 1-D and 2-D arrays, `.shape`, and `dict` lookups / key iteration.
-/
namespace NASim.PyRt

/-- `np.zeros(n)` -/
def zeros1 (n : Nat) : List Int := List.replicate n 0
/-- `np.zeros((r, c))` -/
def zeros2 (sh : Nat × Nat) : List (List Int) := List.replicate sh.1 (zeros1 sh.2)
/-- `a.shape` of a 2-D array with at least one row -/
def shape2 (t : List (List Int)) : Nat × Nat := (t.length, (t.headD []).length)
/-- `v[i]` -/
def at1 (v : List Int) (i : Nat) : Int := v.getD i 0
/-- `v[a:b]` -/
def slice1 (v : List Int) (sl : Nat × Nat) : List Int := (v.drop sl.1).take (sl.2 - sl.1)
/-- `v[a:b] = w` (NumPy requires `len(w) == b - a`) -/
def setSlice (v : List Int) (sl : Nat × Nat) (w : List Int) : List Int := v.take sl.1 ++ w ++ v.drop sl.2
/-- `t[i]` -/
def row (t : List (List Int)) (i : Nat) : List Int := t.getD i []
/-- `t[:k] = rows` (NumPy requires `len(rows) == k`) -/
def setPrefix (t : List (List Int)) (k : Nat) (rows : List (List Int)) : List (List Int) := rows ++ t.drop k

/-- `d.items()` of a name → flag dictionary in scenario order (names are indices in the model) -/
def items (d : List Bool) : List (Nat × Bool) := (List.range d.length).zip d
/-- `enumerate(l)` -/
def enumerate {α : Type} (l : List α) : List (Nat × α) := (List.range l.length).zip l

/-- `State`: the tensor and the map from host address to row number -/
structure RawState where
  tensor : List (List Int)
  host_num_map : List (Addr × Nat)
deriving Repr, Inhabited

/-- `Observation`: its three instance attributes -/
structure ObsObj where
  obs_shape : Nat × Nat
  aux_row : Nat
  tensor : List (List Int)
deriving Repr, Inhabited, DecidableEq

/-- `host_num_map[addr]` (a missing key is a `KeyError` in Python) -/
def numMapGet (m : List (Addr × Nat)) (a : Addr) : Nat := (m.lookup a).getD 0
/-- iteration over a `dict`: its keys in insertion order -/
def mapKeys (m : List (Addr × Nat)) : List Addr := m.map (·.1)
def dictKeys (d : List (Addr × Bool)) : List Addr := d.map (·.1)
/-- `d[k]` (a missing key is a `KeyError` in Python) -/
def dictGet (d : List (Addr × Bool)) (k : Addr) : Bool := (d.lookup k).getD false

/-- `network.hosts` (address → scenario `Host`) as the configuration rows in address-space order -/
def hostItems (rows : List Row) : List (Addr × Row) := rows.map fun r => (r.addr, r)
/-- `network.hosts[addr]` -/
def hostAt (rows : List Row) (a : Addr) : Row := (rows.find? (fun r => r.addr == a)).getD default
/-- `network.host_num_map`: address → position in the address space -/
def numMapOf (rows : List Row) : List (Addr × Nat) := (rows.map (·.addr)).zip (List.range rows.length)

end NASim.PyRt
