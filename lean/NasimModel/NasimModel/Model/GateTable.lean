import NasimModel.Model.Core
/-!
# The gates of `Network.perform_action` as a table

`gate` (Core.lean) is written by hand.  The T1 translator reads the *source text* of
`Network.perform_action` and `_perform_subnet_scan` and emits the sequence of early returns it finds
there as a list of `(condition, outcome)` pairs over the vocabulary below
(`Generated/Gates.lean`); `runGates` interprets such a list, and the generated file proves
`gate = runGates srcGates` — so the order and the outcome of every gate of the model are the ones
the source spells out, and an edit of that function breaks the obligation.
-/
namespace NASim

/-- the conditions `perform_action` tests before the draw -/
inductive GateCond
  | noop                 -- `action.is_noop()`
  | notReachOrDisc       -- `not state.host_reachable(target) or not state.host_discovered(target)`
  | remoteNoPerm         -- `action.is_remote() and not has_required_remote_permission(state, action)`
  | exploitNoTraffic     -- `action.is_exploit() and not traffic_permitted(state, target, service)`
  | privescNotComp       -- `action.is_privilege_escalation() and not state.host_compromised(target)`
deriving DecidableEq, Repr

/-- what the early return reports -/
inductive GateOut | success | conn | perm | undef
deriving DecidableEq, Repr

def GateCond.holds (n : Net) (s : State) (a : Action) : GateCond → Bool
  | .noop => a.kind == .noop
  | .notReachOrDisc => !(s.get a.target).reach || !(s.get a.target).disc
  | .remoteNoPerm => a.isRemote && !hasRemotePerm n s a
  | .exploitNoTraffic => a.kind == .exploit && !trafficPermitted n s a.target a.svc
  | .privescNotComp => a.kind == .privesc && !(s.get a.target).comp

def GateOut.gate : GateOut → Gate
  | .success => .noop
  | .conn => .fail { success := false, connErr := true }
  | .perm => .fail { success := false, permErr := true }
  | .undef => .fail { success := false, undefErr := true }

/-- run the early returns in order; falling through all of them passes the gates -/
def runGates (n : Net) (s : State) (a : Action) : List (GateCond × GateOut) → Gate
  | [] => .pass
  | (c, o) :: rest => if c.holds n s a then o.gate else runGates n s a rest

/-- when no draw is taken -/
inductive NoDrawCond | exploitOnCompromised | never
deriving DecidableEq, Repr

def NoDrawCond.holds (s : State) (a : Action) : NoDrawCond → Bool
  | .exploitOnCompromised => a.kind == .exploit && (s.get a.target).comp
  | .never => false

/-- the two checks of `_perform_subnet_scan` -/
inductive ScanCond | notCompromised | noAccess
deriving DecidableEq, Repr

def ScanCond.holds (s : State) (a : Action) : ScanCond → Bool
  | .notCompromised => !(s.get a.target).comp
  | .noAccess => !hasAccess (s.get a.target) a.req

def runScanGates (s : State) (a : Action) : List (ScanCond × GateOut) → Option Result
  | [] => none
  | (c, o) :: rest =>
    if c.holds s a then
      some (match o with
            | .conn => { success := false, connErr := true }
            | .perm => { success := false, permErr := true }
            | .undef => { success := false, undefErr := true }
            | .success => { success := true })
    else runScanGates s a rest

end NASim
