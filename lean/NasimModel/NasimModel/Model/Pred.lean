import NasimModel.Model.Env
/-!
# The dynamics properties C01–C09 as decidable predicates on one observed transition

Each property of `properties.jsonl` that speaks about a single step is written here once, as a
Boolean function of a *transition record* `Trans` — pre-state, action, draw, and everything the
step produced. The theorems of `Props/` show that the model's own transition satisfies each
predicate for every scenario, state, action and draw; the driver evaluates the *same* predicate
on transitions observed from the Python implementation, which is how a disagreement between
model and implementation is classified as a concrete failing input of a property (or not).
-/
namespace NASim

structure Trans where
  s : State
  a : Action
  u : Rat
  s' : State
  res : Result
  draws : Nat
  reward : Int
  done : Bool
  obsF : List (List Int)
  obsP : List (List Int)
deriving Repr, Inhabited

/-- the model's transition -/
def modelTrans (sc : Scenario) (s : State) (a : Action) (u : Rat) : Trans :=
  let p := perform sc.net s a u
  { s, a, u, s' := p.1, res := p.2.1, draws := p.2.2, reward := p.2.1.value - a.cost,
    done := goal sc.net p.1,
    obsF := observe sc.layout p.1 a p.2.1 true, obsP := observe sc.layout p.1 a p.2.1 false }

/-- host-level preconditions of an exploit / escalation (C01) -/
def hostPre (r : Row) (a : Action) : Bool :=
  (a.kind == .exploit && exploitApplies r a)
  || (a.kind == .privesc && onHostOk r a && privescApplies r a)

def chanceFails (s : State) (a : Action) (u : Rat) : Bool :=
  decide (drawsNeeded s a = 1 ∧ u > a.prob)

def gatePasses (n : Net) (s : State) (a : Action) : Bool :=
  match gate n s a with
  | .pass => true
  | _ => false

def rowsAligned (s s' : State) : Bool :=
  s.length == s'.length && (s.zip s').all fun (r, r') => r.addr == r'.addr

def cfgOf (r : Row) := (r.addr, r.value, r.dvalue, r.os, r.svc, r.proc)

/-- C01 — access is gained only through an applicable exploit or escalation -/
def predC01 (sc : Scenario) (t : Trans) : Bool :=
  let n := sc.net
  let tgt := t.s.get t.a.target
  -- only if
  ((t.s.zip t.s').all fun (r, r') =>
    (r'.comp == r.comp && r'.access == r.access)
    || ((t.a.kind == .exploit || t.a.kind == .privesc) && r.addr == t.a.target && hostPre r t.a))
  -- if
  && (!(gatePasses n t.s t.a && hostPre tgt t.a && !chanceFails t.s t.a t.u)
      || (t.res.success && (t.s'.get t.a.target).comp
          && (t.s'.get t.a.target).access == max tgt.access t.a.grant))

/-- C02 — discovery, reachability, pivot access and both firewall layers -/
def predC02 (sc : Scenario) (t : Trans) : Bool :=
  let n := sc.net
  let a := t.a
  let tgt := t.s.get a.target
  let ok := t.res.success
  -- not (discovered and reachable) ⇒ failure, nothing changes
  (!(a.kind != .noop && !(tgt.reach && tgt.disc)) || (!ok && t.s' == t.s))
  -- a failed action changes nothing
  && (ok || t.s' == t.s)
  -- remote actions into a non-public subnet need a pivot
  && (!(ok && a.isRemote && !n.pub a.target.1)
      || t.s.any fun p => p.comp && decide (a.req ≤ p.access)
            && (if a.kind == .exploit then n.subnetTraffic p.addr.1 a.target.1 a.svc
                else n.conn p.addr.1 a.target.1))
  -- exploits need a permitted path through both firewall layers
  && (!(ok && a.kind == .exploit)
      || (n.pub a.target.1 && n.subnetTraffic 0 a.target.1 a.svc)
      || t.s.any fun c => c.comp && n.subnetTraffic c.addr.1 a.target.1 a.svc
            && n.hostTraffic c.addr a.target a.svc)
  -- on-host actions need a compromised target with the required access
  && (!(ok && (a.kind == .subnetScan || a.kind == .procScan || a.kind == .privesc))
      || (tgt.comp && decide (a.req ≤ tgt.access)))

/-- the state invariant of C03, as a Boolean -/
def inv3 (n : Net) (s : State) : Bool :=
  s.all fun r =>
    (r.reach == (n.pub r.addr.1 || s.any fun c => c.comp && n.conn c.addr.1 r.addr.1))
    && (!r.comp || r.disc) && (!r.disc || r.reach)

/-- C03 — reachability and discovery follow compromise exactly -/
def predC03 (sc : Scenario) (t : Trans) : Bool :=
  let n := sc.net
  let a := t.a
  let tgt := t.s.get a.target
  -- the invariant is preserved
  (!inv3 n t.s || inv3 n t.s')
  -- discovery happens only through a successful subnet scan from a compromised host …
  && ((t.s.zip t.s').all fun (r, r') =>
        !(r'.disc && !r.disc)
        || (a.kind == .subnetScan && t.res.success && tgt.comp && n.conn a.target.1 r.addr.1))
  -- … which discovers every host of every connected subnet
  && (!(a.kind == .subnetScan && t.res.success)
      || ((t.s'.all fun r' => !n.conn a.target.1 r'.addr.1 || r'.disc)
          && t.res.discovered == t.s.map (fun r => (r.addr, n.conn a.target.1 r.addr.1))
          && t.res.newly == t.s.map (fun r => (r.addr, n.conn a.target.1 r.addr.1 && !r.disc))))

/-- C04 (step part) — monotone progress, immutable configuration -/
def predC04 (_sc : Scenario) (t : Trans) : Bool :=
  rowsAligned t.s t.s'
  && (t.s.zip t.s').all fun (r, r') =>
      cfgOf r == cfgOf r'
      && (!r.comp || r'.comp) && (!r.reach || r'.reach) && (!r.disc || r'.disc)
      && decide (r.access ≤ r'.access)

/-- C05 — reward is value gained minus cost; values are paid on first root / first discovery -/
def predC05 (_sc : Scenario) (t : Trans) : Bool :=
  let a := t.a
  let tgt := t.s.get a.target
  let tgt' := t.s'.get a.target
  let hostGain : Int :=
    if (a.kind == .exploit || a.kind == .privesc) && tgt.access != 2 && tgt'.access == 2
    then tgt.value else 0
  let discGain : Int :=
    ((t.s.zip t.s').filter fun (r, r') => !r.disc && r'.disc).foldl (fun acc p => acc + p.1.dvalue) 0
  t.reward == t.res.value - a.cost
  && t.res.value == hostGain + discGain
  && (t.res.success || t.res.value == 0)
  && (a.kind != .noop || a.cost == 0)

/-- C06 (step part) — the terminal flag is exactly "root on every sensitive host" -/
def predC06 (sc : Scenario) (t : Trans) : Bool :=
  t.done == sc.sens.all fun (ad, _) => decide (2 ≤ (t.s'.get ad).access)

def flagCount (r : Result) : Nat := r.connErr.toNat + r.permErr.toNat + r.undefErr.toNat

/-- C07 — one draw decides, chance failures change nothing, flags are exclusive -/
def predC07 (sc : Scenario) (t : Trans) : Bool :=
  let n := sc.net
  let pass := gatePasses n t.s t.a
  let cf := pass && chanceFails t.s t.a t.u
  -- draws consumed
  (t.draws == (if pass then drawsNeeded t.s t.a else 0))
  -- a chance failure changes nothing, gains nothing, is reported as undefined error
  && (!cf || (t.s' == t.s && t.res.value == 0 && !t.res.success && t.res.undefErr
              && !t.res.connErr && !t.res.permErr))
  -- nothing else is reported as undefined error
  && (cf || !t.res.undefErr)
  -- flags
  && (!t.res.success || flagCount t.res == 0) && decide (flagCount t.res ≤ 1)

/-- C08 — observations: auxiliary row, full rows, entitlement table -/
def predC08 (sc : Scenario) (t : Trans) : Bool :=
  t.obsF == observe sc.layout t.s' t.a t.res true
  && t.obsP == observe sc.layout t.s' t.a t.res false

/-- every combination of the ten keyword switches of `HostVector.observe` -/
def allMasks : List Mask :=
  let B := [false, true]
  B.flatMap fun a => B.flatMap fun b => B.flatMap fun c => B.flatMap fun d => B.flatMap fun e =>
  B.flatMap fun f => B.flatMap fun g => B.flatMap fun h => B.flatMap fun i => B.map fun j =>
    { address := a, comp := b, reach := c, disc := d, access := e, value := f, dvalue := g,
      svc := h, proc := i, os := j }

/-- an observed row is the documented encoding of *some* masked view of the true row: every
documented group of columns shows either its true content, at its documented position, or zeros -/
def rowConforms (L : Layout) (r : Row) (v : List Int) : Bool :=
  allMasks.any fun m => observeRow L r m == v

/-- C09 (step part) — both observation tensors are laid out as documented: one row per host in
state order, each a masked view of that host's row in the documented layout, followed by the
auxiliary row (four result flags, then zeros) -/
def predC09 (sc : Scenario) (t : Trans) : Bool :=
  let L := sc.layout
  let ok (obs : List (List Int)) : Bool :=
    obs.length == t.s'.length + 1
    && (t.s'.zip obs).all (fun p => rowConforms L p.1 p.2)
    && obs.getLast? == some (auxRow L.stateSize t.res)
  ok t.obsF && ok t.obsP

def predAll (sc : Scenario) (t : Trans) : List Bool :=
  [predC01 sc t, predC02 sc t, predC03 sc t, predC04 sc t, predC05 sc t, predC06 sc t,
   predC07 sc t, predC08 sc t, predC09 sc t]

end NASim
