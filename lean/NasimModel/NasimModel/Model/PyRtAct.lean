import NasimModel.Model.PyRtObs
/-!
# Run-time vocabulary of the source translator, action-space world

`harness/pysrc_act.py` prints the constructors of the action classes, `load_action_list`,
`FlatActionSpace.get_action`, `ParameterisedActionSpace.get_action` with its three helpers, `Scenario.exploit_map /
privesc_map / get_action_space_size` and `NASimEnv.get_action_mask` as Lean definitions
(`Generated/SrcAct.lean`).  This file is what they are written over: a freshly allocated action object of a given
class, Python dictionaries as association lists (`in`, `d[k]`, `d[k] = v`), keyword dictionaries (`**d`) as a record
of optional entries, and list indexing.  OS / service / process names are their indices in the scenario's lists.
-/
namespace NASim.PyRt

/-- an object of an action class before `__init__` ran -/
def newAction (k : Kind) : Action := { kind := k, target := (0, 0), cost := 0, prob := 0, req := 0 }

/-- a keyword dictionary (`**d`): the entries it may carry in this module -/
structure KwDict where
  name : Option Unit := none
  service : Option Nat := none
  process : Option (Option Nat) := none
  os : Option (Option Nat) := none
  cost : Option Int := none
  prob : Option Rat := none
  access : Option Nat := none
deriving Repr, Inhabited, DecidableEq

/-- `k in d` -/
def dmem {α β : Type} [BEq α] (d : List (α × β)) (k : α) : Bool := d.any (fun e => e.1 == k)
/-- `d[k]` (a missing key is a `KeyError` in Python) -/
def dget {α β : Type} [BEq α] [Inhabited β] (d : List (α × β)) (k : α) : β := (d.lookup k).getD default
/-- `d[k] = v` (insertion ordered) -/
def dset {α β : Type} [BEq α] (d : List (α × β)) (k : α) (v : β) : List (α × β) := dictSet d k v
/-- `d.items()` of a definition dictionary keyed by name (names are positions in the model) -/
def named {α : Type} (d : List α) : List (Nat × α) := (List.range d.length).zip d
/-- `l[i]` on a list of naturals (an index out of range is an `IndexError` in Python) -/
def natAt (l : List Nat) (i : Nat) : Nat := l.getD i 0
/-- `max(l)` -/
def maxNat (l : List Nat) : Nat := l.foldl max 0

end NASim.PyRt
