import NasimModel.Model.Wire
import NasimModel.Model.LoaderWire
import NasimModel.Model.GenWire
import NasimModel.Model.LoadScen
import NasimModel.Model.Plan
import NasimModel.Model.Bound
/-!
Driver: reads one request per line on stdin, answers one line per query on stdout.
Scenario-definition lines produce no output. See `NasimModel/Model/Wire.lean` for tokens.
-/
open NASim NASim.Wire

structure Cfg where
  sc : Scenario := default

def ints (ts : List Tok) : List Int := ts.map Tok.int
def join (xs : List Int) : String := " ".intercalate (xs.map toString)

def setHostFw (hosts : List HostDef) (tgt src : Addr) (den : List Nat) : List HostDef :=
  hosts.map fun h => if h.addr == tgt then { h with fw := h.fw ++ [(src, den)] } else h

def stateOf (c : Cfg) (dyn : List Int) : State := withDyn c.sc.cfgRows dyn

/-- run an operation sequence through the model environment (`Env.make / reset / step`) -/
partial def runEnv (e : Env) (ts : List Tok) (acc : List Int) : List Int :=
  let snap (e : Env) (trunc done : Bool) (reward : Int) (draws : Nat) : List Int :=
    [(e.steps : Int), bi trunc, bi done, reward, (draws : Int)] ++ dynOf e.cur ++ [sep]
      ++ flatten2 e.lastObs ++ [sep]
  match ts with
  | [] => acc
  | op :: rest =>
    if op.int == 0 then
      let e' := e.reset
      runEnv e' rest (acc ++ snap e' false (goal e'.sc.net e'.cur) 0 0)
    else
      match actionOfToks (rest.take 10), (rest.drop 10).head? with
      | some a, some u =>
        let (e', o, tr) := e.step a u.rat
        runEnv e' (rest.drop 11) (acc ++ snap e' tr o.done o.reward o.draws)
      | _, _ => acc ++ [-1]

def handle (c : Cfg) (line : String) : Cfg × Option String :=
  match tokens line with
  | [] => (c, none)
  | cmd :: rest =>
    let ts := rest.map parseTok
    let xs := ints ts
    let sc := c.sc
    match cmd with
    | "new" => ({}, none)
    | "subnets" => ({ c with sc := { sc with subnets := xs.map nat } }, none)
    | "bounds" => ({ c with sc := { sc with bounds := (nat (xs.getD 0 0), nat (xs.getD 1 0)) } }, none)
    | "dims" => ({ c with sc := { sc with nOs := nat (xs.getD 0 0), nSvc := nat (xs.getD 1 0),
                                           nProc := nat (xs.getD 2 0) } }, none)
    | "topo" =>
      match xs with
      | n :: ys =>
        let n := n.toNat
        let rows := (List.range n).map fun i => (ys.drop (i*n)).take n
        ({ c with sc := { sc with topo := rows } }, none)
      | _ => (c, some "bad")
    | "fw" =>
      match xs with
      | s :: d :: ys => ({ c with sc := { sc with fw := sc.fw ++ [((nat s, nat d), ys.map nat)] } }, none)
      | _ => (c, some "bad")
    | "host" =>
      match xs with
      | s :: h :: v :: dv :: ys =>
        let (os, ys) := takeCounted ys
        let (svc, ys) := takeCounted ys
        let (proc, _) := takeCounted ys
        let hd : HostDef := { addr := (nat s, nat h), os := os.map b, svc := svc.map b,
                              proc := proc.map b, value := v, dvalue := dv }
        ({ c with sc := { sc with hosts := sc.hosts ++ [hd] } }, none)
      | _ => (c, some "bad")
    | "hfw" =>
      match xs with
      | ts' :: th :: ss :: sh :: ys =>
        ({ c with sc := { sc with hosts := setHostFw sc.hosts (nat ts', nat th) (nat ss, nat sh) (ys.map nat) } }, none)
      | _ => (c, some "bad")
    | "sens" =>
      match xs with
      | [s, h, v] => ({ c with sc := { sc with sens := sc.sens ++ [((nat s, nat h), v)] } }, none)
      | _ => (c, some "bad")
    | "expl" =>
      match ts with
      | [svc, os, prob, cost, acc] =>
        let e : ExploitDef := { svc := nat svc.int, os := optNat os.int, prob := prob.rat,
                                cost := cost.int, access := nat acc.int }
        ({ c with sc := { sc with exploits := sc.exploits ++ [e] } }, none)
      | _ => (c, some "bad")
    | "priv" =>
      match ts with
      | [proc, os, prob, cost, acc] =>
        let p : PrivescDef := { proc := optNat proc.int, os := optNat os.int, prob := prob.rat,
                                cost := cost.int, access := nat acc.int }
        ({ c with sc := { sc with privescs := sc.privescs ++ [p] } }, none)
      | _ => (c, some "bad")
    | "costs" =>
      match xs with
      | [a, o, s, p] => ({ c with sc := { sc with svcScanCost := a, osScanCost := o,
                                                  subnetScanCost := s, procScanCost := p } }, none)
      | _ => (c, some "bad")
    | "limit" =>
      match xs with
      | [k] => ({ c with sc := { sc with stepLimit := some k } }, none)
      | _ => (c, some "bad")
    | "INIT" =>
      let s0 := sc.init
      let L := sc.layout
      let out := [(s0.length : Int), (L.stateSize : Int), obsLow sc, obsHigh sc,
                  (sc.actionSpaceSize : Int)]
        ++ [sep] ++ s0.flatMap rowInts
        ++ [sep] ++ (s0.map (encodeRow L)).flatten
        ++ [sep] ++ (s0.map (vectorize L)).flatten
        ++ [sep] ++ flatten2 (initialObs L s0 true)
        ++ [sep] ++ flatten2 (initialObs L s0 false)
        ++ [sep] ++ (s0.map (fun r => encodeRow L (decodeRow L (vectorize L r)))).flatten
      (c, some (join out))
    | "ACTS" =>
      let acts := flatActions sc
      (c, some (" ".intercalate (toString acts.length :: acts.flatMap actionToks)))
    | "NVEC" => (c, some (join ((paramNvec sc).map (fun (x : Nat) => (x : Int)))))
    | "PARAM" => (c, some (" ".intercalate (actionToks (decodeParam sc (xs.map nat)))))
    | "MASK" => (c, some (join ((actionMask sc (stateOf c xs)).map bi)))
    | "GOAL" => (c, some (join [bi (goal sc.net (stateOf c xs))]))
    | "TRUNC" => (c, some (join [bi (truncated sc (nat (xs.getD 0 0)))]))
    | "Q" =>
      let k := sc.hosts.length
      let s := stateOf c (xs.take (4*k))
      match actionOfToks ((ts.drop (4*k)).take 10), (ts.drop (4*k+10)) with
      | some a, [u] =>
        let oF := genStep sc true s a u.rat
        let oP := genStep sc false s a u.rat
        let L := sc.layout
        let out := [(oF.draws : Int)] ++ resultInts oF.res ++ [oF.reward, bi oF.done]
          ++ [sep] ++ oF.next.flatMap rowInts
          ++ [sep] ++ (oF.next.map (encodeRow L)).flatten
          ++ [sep] ++ flatten2 oF.obs
          ++ [sep] ++ flatten2 oP.obs
        (c, some (join out))
      | _, _ => (c, some "badq")
    | "POST15" => (c, some (NASim.Gen.postReply sc rest))
    | "HOPS" => (c, some (join [(hops sc : Int), scoreUpperBound sc]))
    | "MINSUB" => (c, some (join [(minSubnets sc : Int)]))
    | "SAT" =>
      let plan := findPlan sc
      (c, some (join ([bi (solvedBy sc plan), (plan.length : Int)] ++ plan.map (fun (i : Nat) => (i : Int)))))
    | "DOC" => (c, some (NASim.Load.docReply rest))
    | "DOCSC" =>
      -- the scenario the environment would run for a document: load + toScenario, as wire lines
      match NASim.Load.parseY (rest.length + 1) rest with
      | some (doc, []) =>
        match NASim.Load.loadScenario doc with
        | some sc' => (c, some ("ok ; " ++ " ; ".intercalate (NASim.Gen.scenarioLines sc')))
        | none => (c, some "none")
      | _ => (c, some "bad-doc")
    | "GEN" =>
      -- replies with the generated scenario and installs it as the current scenario
      match NASim.Gen.genReply rest with
      | (reply, some sc') => ({ c with sc := sc' }, some reply)
      | (reply, none) => (c, some reply)
    | "E" =>
      match ts with
      | fo :: _ :: ops => (c, some (join (runEnv (Env.make sc (b fo.int)) ops [])))
      | _ => (c, some "bade")
    | "P" =>
      -- predicates C01..C08 on a transition observed from the implementation:
      -- P <dyn s> <action> <u> <draws> <result> <reward> <done> SEP rows' SEP obsF SEP obsP
      let k := sc.hosts.length
      let s := stateOf c (xs.take (4*k))
      match actionOfToks ((ts.drop (4*k)).take 10), (ts.drop (4*k+10)).head? with
      | some a, some u =>
        let parts := splitSep (xs.drop (4*k+11))
        let head := parts.getD 0 []
        let draws := nat (head.headD 0)
        let (res, tl) := takeResult (sc.hosts.map (·.addr)) (head.drop 1)
        let (rows', _) := takeRows k (parts.getD 1 [])
        let w := sc.layout.stateSize
        let t : Trans := { s, a, u := u.rat, s' := rows', res, draws, reward := tl.getD 0 0,
                           done := b (tl.getD 1 0), obsF := chunk w (parts.getD 2 []),
                           obsP := chunk w (parts.getD 3 []) }
        (c, some (join ((predAll sc t).map bi)))
      | _, _ => (c, some "badp")
    | _ => (c, some "bad-op")

partial def loop (h : IO.FS.Stream) (out : IO.FS.Stream) (c : Cfg) : IO Unit := do
  let line ← h.getLine
  if line.isEmpty then
    out.flush
    return ()
  let (c', o) := handle c line
  match o with
  | some s => out.putStrLn s
  | none => pure ()
  loop h out c'

def main : IO Unit := do
  let out ← IO.getStdout
  loop (← IO.getStdin) out {}
